"""C04  CSS minification preserves the cascade input.

MC : CssGen (generator automaton over per-family token alphabets; the meaning functions of
     CssValue/CssColor/CssShorthand are evaluated in every state: totality, laws of the design
     model of each rewrite family).  Its state dump is the input set.
RUN: harness/cmd/c04 calls the real css.Minifier (stylesheet and inline mode, KeepCSS2 on/off,
     Precision 0) and projects input and output with its own CSS Syntax Level 3 tokenizer/parser.
TV : C04Trace evaluates CssEq.ItemVerdict on every (input item, output item) position.
"""
import hashlib
import json
import os
import re
from concurrent.futures import ThreadPoolExecutor

import vlib

PID = 'C04'
MAX_RERUN = 2000
CHUNK = 20000        # cases per driver process
PAR = 4              # driver processes side by side


# ------------------------------------------------------------------ cases ------------
def mk(src, inline, css2, origin):
    if isinstance(src, str):
        src = src.encode('utf-8', 'surrogateescape')
    return dict(src=src, inline=inline, css2=css2, origin=origin)


def repo_test_cases(ctx):
    out = []
    for row in vlib.test_inputs(ctx, 'css'):
        if not row['strings']:
            continue
        s = row['strings'][0]
        fn = row['func']
        if fn == 'TestCSS':
            for c2 in (False, True):
                out.append(mk(s, False, c2, 'test:' + fn))
        elif fn in ('TestCSSInline', 'TestCSSKeepCSS2'):
            for c2 in (False, True):
                out.append(mk(s, True, c2, 'test:' + fn))
                out.append(mk('a{' + s + '}', False, c2, 'test:' + fn + ':wrapped'))
    return out


def corpus_cases(ctx):
    out = []
    bdir = os.path.join(vlib.REPO, '_benchmarks')
    if os.path.isdir(bdir):
        for fn in sorted(os.listdir(bdir)):
            if fn.endswith('.css'):
                if ctx.quick() and fn != 'sample_normalize.css':
                    continue        # the large style sheets (bootstrap, gumby, fontawesome) belong to the thorough tier
                b = open(os.path.join(bdir, fn), 'rb').read()
                for c2 in ((False,) if ctx.quick() else (False, True)):
                    out.append(mk(b, False, c2, 'bench:' + fn))
    cdir = os.path.join(vlib.REPO, 'tests', 'css', 'corpus')
    if os.path.isdir(cdir):
        for fn in sorted(os.listdir(cdir)):
            b = open(os.path.join(cdir, fn), 'rb').read()
            if ctx.quick() and len(b) > 60000:
                continue            # bootstrap-sized corpus files: thorough tier
            out.append(mk(b, False, False, 'corpus:' + fn))
            out.append(mk(b, True, False, 'corpus:' + fn))
    return out


# ------------------------------------------------------------------ run + validate ---
def run_cases(ctx, exe, cases, tag, isolated=False):
    """Run the driver; yields event dicts.  isolated: one fresh driver process per case (used to
    confirm rejections); otherwise chunks of CHUNK cases, PAR driver processes side by side."""
    if isolated:
        groups = [[i] for i in range(len(cases))]
    else:
        groups = [list(range(a, min(a + CHUNK, len(cases)))) for a in range(0, len(cases), CHUNK)]

    def one(g):
        idxs = groups[g]
        cin = ctx.path('run', '%s-%d-cases.ndjson' % (tag, g))
        tout = ctx.path('run', '%s-%d-trace.ndjson' % (tag, g))
        with open(cin, 'w') as f:
            for i in idxs:
                c = cases[i]
                f.write(json.dumps(dict(id=i, src=list(c['src']), inline=c['inline'], css2=c['css2']),
                                   separators=(',', ':')) + '\n')
        vlib.run([exe, cin, tout], timeout=1800)
        os.remove(cin)
        return tout

    with ThreadPoolExecutor(max_workers=1 if isolated else PAR) as ex:
        for tout in ex.map(one, range(len(groups))):
            with open(tout) as fh:
                for l in fh:
                    yield json.loads(l)
            os.remove(tout)


def tv_key(e):
    return hashlib.sha1(json.dumps([e['omal'], e['err'], e['panic'], e['i'], e['o']], separators=(',', ':'),
                                   sort_keys=True).encode()).digest()


def tv(ctx, lines, timeout=1700):
    """TLC validates the lines (dicts).  Returns (rejects {index: [why]}, notes set(index))."""
    n = len(lines)
    if n == 0:
        return {}, set()
    shards = max(1, min(vlib.JOBS, n // 1500 + 1))      # a JVM start costs about as much as 1500 lines
    vlib._speccopy(ctx)          # before the worker threads race for it
    files, index = [], []
    for s in range(shards):
        idx = list(range(s, n, shards))
        p = ctx.path('tv', 'c04-%d-%d.ndjson' % (vlib._tlc_n[0], s))
        with open(p, 'w') as f:
            for i in idx:
                f.write(lines[i] + '\n')
        files.append(p)
        index.append(idx)
    vlib._tlc_n[0] += 1

    def one(s):
        return vlib.tlc(ctx, 'C04Trace', 'C04Trace.cfg', workers=1, heap='3g', timeout=timeout,
                        env={'TRACE': files[s]})

    with ThreadPoolExecutor(max_workers=shards) as ex:
        results = list(ex.map(one, range(shards)))
    rejects, notes = {}, set()
    for s, r in enumerate(results):
        bad = [x for x in r['errors'] if 'REJECT' not in x]
        if r['invariant_violations'] or bad or not r['completed']:
            raise vlib.Infra('trace validation run failed (C04Trace shard %d):\n%s' % (s, r['out'][-3000:]))
        if r['distinct'] != len(index[s]) + 1:
            raise vlib.Infra('trace validation consumed %d of %d lines (shard %d)' % (r['distinct'] - 1, len(index[s]), s))
        for (l, why) in r['rejects']:
            rejects.setdefault(index[s][l - 1], []).append(why)
        for m in re.finditer(r'<<"NOTE", (\d+), "ood">>', r['out']):
            notes.add(index[s][int(m.group(1)) - 1])
        os.remove(files[s])
    return rejects, notes


def validate(ctx, exe, cases, tag, isolated=False):
    """Run the cases on the real code and validate every item position.
    Returns (outs {case: output bytes}, per-case rejects {case_index: [(idx, why)]}, stats).
    Identical (input item, output item) pairs are validated once."""
    uniq, first = {}, []          # key -> index ; TV lines (json strings)
    refs = []                     # (case id, item idx, uniq index)
    skipped_mal = set()
    outs = {}
    nlines = 0
    for e in run_cases(ctx, exe, cases, tag, isolated):
        nlines += 1
        if e['idx'] == 0:
            o = bytes(e['out'])
            outs[e['id']] = o if (isolated or len(o) < 200) else o[:200]
            cases[e['id']]['changed'] = (o != cases[e['id']]['src']) and not e['mal']
        if e['mal']:
            skipped_mal.add(e['id'])
            continue
        if e['i']['t'] == 'none' and e['o']['t'] == 'none' and not e['panic'] and not e['err'] and not e['omal']:
            continue        # empty input, empty output
        k = tv_key(e)
        if k not in uniq:
            uniq[k] = len(first)
            first.append(json.dumps(dict(id=e['id'], idx=e['idx'], omal=e['omal'], err=e['err'], panic=e['panic'],
                                         i=e['i'], o=e['o']), separators=(',', ':')))
        refs.append((e['id'], e['idx'], uniq[k]))
    rejects, notes = tv(ctx, first)
    per_case = {}
    accepted = 0
    ood = 0
    for cid, idx, u in refs:
        if u in rejects:
            per_case.setdefault(cid, []).append((idx, '/'.join(sorted(set(rejects[u])))))
        else:
            accepted += 1
            if u in notes:
                ood += 1
    stats = dict(lines=nlines, distinct_lines=len(first), accepted=accepted, outside_domain=ood,
                 malformed_inputs=len(skipped_mal))
    return outs, per_case, stats


def ident(c):
    return dict(src=c['src'].decode('latin1'), inline=c['inline'], css2=c['css2'])


def describe(c, out, rej):
    return '%r (inline=%s css2=%s) -> %r %s' % (
        c['src'].decode('latin1')[:300], c['inline'], c['css2'], out.decode('latin1')[:300],
        ('rejected at item ' + '; '.join('%d: %s' % (i, w) for i, w in rej[:4])) if rej else 'accepted')



# ------------------------------------------------------------------ generator --------
# Families of the value grammar (DESIGN.md section 4, C04).  q = quick bound, t = thorough.
def L(*xs):
    return list(xs)


COLOR_PROPS = ['color', 'background-color', 'border-left-color', 'border-color', 'outline-color', 'fill',
               'text-decoration-color', 'caret-color', 'background', 'border', 'x']
ALPHA_SLOT = dict(q=L('', '0', '.5', '1', '50%', '100%', '2', '.05'),
                  t=L('', '0', '.5', '1', '50%', '100%', '2', '-1', '.05', '.005', '0.0', '1.0', '60%', '1e-1', '.999'))
RGB_SLOT = dict(q=L('0', '255', '128', '300', '20%', '100%', '50%'),
                t=L('0', '255', '128', '51', '300', '-1', '0%', '20%', '50%', '100%', '120%', '12.5%', '10%'))
FAMS = [
    dict(fam='trbl', props=['margin', 'padding', 'border-width'], kind='list', min=1, max=dict(q=4, t=4),
         slots=[dict(q=L('0', '0px', '1px', '0%', '.5em', 'auto'),
                     t=L('0', '0px', '1px', '0%', '.5em', 'auto', '-1px', '0.0em', '1PX', 'calc(1px + 0px)', '0deg'))]),
    dict(fam='bgpos', props=['background-position'], kind='list', min=1, max=dict(q=4, t=4),
         slots=[dict(q=L('left', 'right', 'top', 'bottom', 'center', '0', '10%', '50%', '100%', '1px'),
                     t=L('left', 'right', 'top', 'bottom', 'center', '0', '0%', '0px', '10%', '50%', '100%', '1px', '0.5px', '-5%', '10.5%', 'CENTER', ','))]),
    dict(fam='bgsize', props=['background-size'], kind='list', min=1, max=dict(q=3, t=4),
         slots=[dict(q=L('auto', '0', '10%', '1px', 'cover', 'contain', ','), t=L('auto', '0', '0px', '10%', '1px', 'cover', 'contain', ',', 'AUTO'))]),
    dict(fam='bgrepeat', props=['background-repeat'], kind='list', min=1, max=dict(q=3, t=4),
         slots=[dict(q=L('repeat', 'no-repeat', 'space', 'round', 'repeat-x', 'repeat-y', ','),
                     t=L('repeat', 'no-repeat', 'space', 'round', 'repeat-x', 'repeat-y', ',', 'REPEAT'))]),
    dict(fam='background', props=['background'], kind='list', min=1, max=dict(q=3, t=3),
         slots=[dict(q=L('red', '#0000', 'transparent', 'url(a)', 'none', '0', 'left', 'top', 'center', '10%', '/', 'auto', 'cover',
                         'no-repeat', 'repeat', 'repeat-x', 'scroll', 'fixed', 'padding-box', 'border-box', ','),
                     t=L('red', '#0000', 'transparent', 'url(a)', 'none', '0', 'left', 'top', 'center', 'right', 'bottom', '10%', '1px', '/', 'auto', 'cover',
                         'no-repeat', 'repeat', 'repeat-x', 'space', 'scroll', 'fixed', 'padding-box', 'border-box', 'content-box', ',',
                         '#FFFFFF', 'rgba(0,0,0,0)', 'linear-gradient(red,#00f)'))]),
    dict(fam='border', props=['border', 'border-left', 'outline', 'column-rule', 'text-decoration', 'text-emphasis', 'border-top', 'border-right', 'border-bottom'],
         kind='list', min=1, max=dict(q=3, t=4),
         slots=[dict(q=L('none', 'medium', 'currentcolor', 'solid', '0', '1px', 'red', '#FF0000', 'invert', 'underline'),
                     t=L('none', 'medium', 'currentcolor', 'solid', '0', '1px', 'red', '#FF0000', 'invert', 'underline', 'BLACK', 'NONE', 'filled'))]),
    dict(fam='bordercolor', props=['border-color'], kind='list', min=1, max=dict(q=4, t=4),
         slots=[dict(q=L('red', '#f00', 'currentcolor', 'blue', 'initial'), t=L('red', '#f00', '#FF0000', 'currentcolor', 'blue', 'initial', 'transparent', 'inherit'))]),
    dict(fam='font', props=['font'], kind='list', min=1, max=dict(q=3, t=4),
         slots=[dict(q=L('normal', 'bold', 'italic', '400', '12px', 'medium', '/', '1.5', 'arial', '"Times New Roman"', 'serif', ','),
                     t=L('normal', 'bold', 'italic', '400', '12px', 'medium', '0', '/', '1.5', 'arial', '"Times New Roman"', "'a  b'", 'serif', ',', '-apple-system', 'Snow'))]),
    dict(fam='fontfamily', props=['font-family'], kind='list', min=1, max=dict(q=3, t=3),
         slots=[dict(q=L('arial', '"Arial"', '"Times New Roman"', 'Times', 'serif', '"sans-serif"', ',', "'a  b'"),
                     t=L('arial', '"Arial"', '"Times New Roman"', 'Times', 'New', 'serif', '"sans-serif"', ',', "'a  b'", '"x-1"', "' a'", '"inherit"', 'Tan', '"1a"', '""'))]),
    dict(fam='fontweight', props=['font-weight'], kind='list', min=1, max=dict(q=1, t=2),
         slots=[dict(q=L('normal', 'bold', '400', 'bolder', 'inherit', 'NORMAL'), t=L('normal', 'bold', '400', '700', 'bolder', 'inherit', 'NORMAL', 'Bold', '1e2'))]),
    dict(fam='flex', props=['flex'], kind='list', min=1, max=dict(q=3, t=3),
         slots=[dict(q=L('0', '1', '2', '10', '1.5', 'auto', 'none', 'initial', '0px', '0%', '10px'),
                     t=L('0', '1', '2', '10', '12', '1e1', '0.5', '00', 'auto', 'none', 'initial', '0px', '0%', '10px', 'content', '1.5', '0em', 'AUTO', '5000%', '1.0'))]),
    dict(fam='flexlong', props=['flex-basis', 'flex-grow', 'flex-shrink', 'order'], kind='list', min=1, max=dict(q=1, t=1),
         slots=[dict(q=L('initial', '0', '0px', '0%', 'auto', '1', 'inherit'), t=L('initial', '0', '0px', '0%', 'auto', '1', 'inherit', 'INITIAL', 'content', '10px', '-1'))]),
    dict(fam='boxshadow', props=['box-shadow'], kind='list', min=1, max=dict(q=4, t=4),
         slots=[dict(q=L('0', '0px', '1px', '0.5px', 'inset', 'red', 'none', 'initial', ','), t=L('0', '0px', '1px', '-1px', '0.5px', '01px', 'inset', 'red', '#000', 'none', 'initial', ',', 'rgba(0,0,0,0)'))]),
    dict(fam='textshadow', props=['text-shadow'], kind='list', min=1, max=dict(q=3, t=4),
         slots=[dict(q=L('0', '1px', 'white', '#FFF', ','), t=L('0', '0px', '1px', 'white', '#FFF', ',', 'BLACK', 'rgb(255,255,255)'))]),
    dict(fam='urange', props=['unicode-range'], kind='list', min=1, max=dict(q=3, t=3),
         slots=[dict(q=L('U+26', 'U+0-7F', 'U+26??', 'U+2680-2780', 'U+2680-2690', 'U+0-10FFFF', 'u+0025-00ff', ','),
                     t=L('U+26', 'U+0-7F', 'U+26??', 'U+27??', 'U+2680-2780', 'U+2680-2690', 'U+0-10FFFF', 'u+0025-00ff', 'U+4??', 'U+1234-1234', 'U+0-FFFF', 'U+10000-10FFFF', 'U+??????', 'U+27', ','))]),
    dict(fam='urangeadj', props=['unicode-range'], kind='clist', min=1, max=dict(q=2, t=3),
         slots=[dict(q='URANGE_TINY', t='URANGE_TINY')]),
    dict(fam='rgbc', props=COLOR_PROPS, kind='func', fn='rgb', sep='comma', slots=[RGB_SLOT, RGB_SLOT, RGB_SLOT, ALPHA_SLOT]),
    dict(fam='rgbs', props=COLOR_PROPS, kind='func', fn='rgba', sep='space', slots=[RGB_SLOT, RGB_SLOT, RGB_SLOT, ALPHA_SLOT]),
    dict(fam='hslc', props=COLOR_PROPS, kind='func', fn='hsl', sep='comma',
         slots=[dict(q=L('0', '30', '48', '120', '210', '-180', '400'), t=L('0', '30', '48', '60', '120', '180', '210', '240', '300', '359', '360', '-180', '-360', '400', '90.5', '1e2')),
                dict(q=L('0%', '13%', '50%', '100%'), t=L('0%', '13%', '50%', '100%', '150%', '-1%', '33%', '12.5%')),
                dict(q=L('0%', '10%', '50%', '100%'), t=L('0%', '3%', '10%', '25%', '50%', '75%', '100%', '150%', '-1%')), ALPHA_SLOT]),
    dict(fam='hsls', props=COLOR_PROPS, kind='func', fn='hsla', sep='space',
         slots=[dict(q=L('0', '48', '210'), t=L('0', '30', '48', '120', '210', '-180', '400')),
                dict(q=L('0%', '50%', '100%'), t=L('0%', '13%', '50%', '100%', '50')),
                dict(q=L('10%', '50%'), t=L('0%', '10%', '50%', '100%', '50')), ALPHA_SLOT]),
    dict(fam='colortok', props=COLOR_PROPS + ['border-top-color', 'stroke', 'text-emphasis-color', 'column-rule', 'text-shadow', 'outline'],
         kind='list', min=1, max=dict(q=1, t=1),
         slots=[dict(q='COLORTOKS_Q', t='COLORTOKS_T')]),
    dict(fam='num', props=['width', 'x', 'z-index', 'line-height', 'margin-left', 'transform', 'flex', 'grid-template-columns', 'opacity', 'rotate:EXCL'], kind='num',
         slots=[dict(q=L('0', '0.0', '.0', '-0', '1', '1.0', '01', '+1', '-1', '0.5', '.50', '1e3', '1000', '5000', '1e-2', '0.001', '100', '1.5E10', '-0.25E+10', '2.50e-10', '04E338353804338273503554', '00.250E+1234567890123456789'),
                     t=L('0', '00', '0.0', '.0', '-0', '+0', '1', '1.0', '01', '+1', '-1', '0.5', '.50', '-.5', '1e3', '1E3', '1000', '5000', '1e-2', '0.001', '1.5e2', '10e-1', '0e5', '100', '1e+3', '12345678901234567890', '0.30000', '1e0', '10', '0.10', '1.5E10', '1.50E20', '-0.25E+10', '2.50e-10', '2.5E-20', '0.0E10', '15E10', '1.5e+100', '04E338353804338273503554', '00.250E+1234567890123456789', '007.50E-12345678901234567890',
                         '+01e99999999999999999999', '0.0e12345678901234567890', '00e9223372036854775808', '010E-9223372036854775809')),
                dict(q=L('', '%', 'px', 'PX', 'em', 'deg', 's', 'fr', 'x'), t=L('', '%', 'px', 'PX', 'em', 'rem', 'vh', 'q', 'Q', 'deg', 'turn', 's', 'ms', 'fr', 'dpi', 'hz', 'x', 'e', 'in')),
                dict(q=L('top', 'calc', 'translate', 'var'), t=L('top', 'calc', 'translate', 'var', 'min', 'foo', 'rotate'))]),
    dict(fam='strurl', props=['content', 'background-image', 'src', 'cursor', 'x'], kind='list', min=1, max=dict(q=1, t=2),
         slots=[dict(q='STRURL', t='STRURL')]),
    dict(fam='passthru', props=['transition', 'border-radius', 'transform', 'grid-template-columns', 'animation', 'list-style', 'clip-path', 'will-change'],
         kind='list', min=1, max=dict(q=2, t=3),
         slots=[dict(q=L('all', '.30s', '0s', '0ms', 'ease-in-out', '0px', '1.0px', '/', ',', 'translate(0px,10.0%)', 'rotate(0deg)', 'scale(1.0,.50)', 'repeat(2,1fr)',
                         'minmax(0px,1fr)', 'cubic-bezier(0.10,0,1.0,1)', '#FF0000', 'Slide-In', 'url(a.png)', 'inset(0px 1px)', '50%'),
                     t=L('all', '.30s', '0s', '0ms', '1e3ms', 'ease-in-out', '0px', '1.0px', '/', ',', 'translate(0px,10.0%)', 'rotate(0deg)', 'rotate(0.50turn)', 'scale(1.0,.50)',
                         'repeat(2,1fr)', 'minmax(0px,1fr)', 'cubic-bezier(0.10,0,1.0,1)', '#FF0000', 'rgba(0,0,0,.50)', 'Slide-In', 'url(a.png)', 'inset(0px 1px)', '50%',
                         'steps(2,jump-end)', 'calc(100% - 0px)', 'infinite', '1fr', '0fr', '[full-start]', 'fit-content(0px)', '"a b"'))]),
    dict(fam='media', props=[], kind='at', atname='media', min=1, max=dict(q=3, t=4),
         slots=[dict(q=L('screen', 'print', 'and', 'not', 'only', '(min-width:100px)', '(max-width : 0px)', '(orientation:landscape)', ',', 'ALL',
                         '(-webkit-min-device-pixel-ratio:1.50)', '(min-resolution:144dpi)'),
                     t=L('screen', 'print', 'and', 'not', 'only', 'or', '(min-width:100px)', '(max-width : 0px)', '(orientation:landscape)', ',', 'ALL',
                         '(-webkit-min-device-pixel-ratio:1.50)', '(min-resolution:144dpi)', '(width>=600.0px)', '(400px<=width<=700px)', '(min-aspect-ratio:16/9)',
                         '( color )', '(min-width:calc(1px + 0px))'))]),
    dict(fam='supports', props=[], kind='at', atname='supports', min=1, max=dict(q=2, t=3),
         slots=[dict(q=L('(display:grid)', 'and', 'or', 'not', '(not (display:inline-grid))', '(color:#FF0000)', 'selector(A > B)', '(margin:0px)'),
                     t=L('(display:grid)', 'and', 'or', 'not', '(not (display:inline-grid))', '(color:#FF0000)', 'selector(A > B)', '(margin:0px)', '(--x: 0px )',
                         'font-tech(color-COLRv1)', '( transform : rotate( 0deg ) )'))]),
    dict(fam='sel', props=[], kind='sel', min=1, max=dict(q=3, t=3), slots=[dict(q='SEL_Q', t='SEL_T')]),
]
COLORTOKS_Q = ['#000', '#FFF', '#f00', '#FF0000', '#ff0000', '#c0c0c0', '#aabbcc', '#AABBCCDD', '#aabbccff', '#0000', '#00000000', '#abcd', '#abcf',
               '#000080', '#808080', 'transparent', 'currentcolor', 'inherit', '#12', '#12345', '#ggg']
COLORTOKS_T = COLORTOKS_Q + ['#FFFF', '#ffff00', '#f0f', '#a52a2a', '#A52A2A', '#ffffff00', '#fff0', '#0f08', '#123456', '#1234567', 'currentColor', 'TRANSPARENT', 'Red', 'BLACK']
STRURL = ['"a"', "'a'", '"a\\\nb"', '"a\\"b"', "'it\\'s'", '"\\61 b"', '""', 'url(a)', 'url("a")', "url( 'a b' )", 'url("a)b")', 'url(data:,x)',
          "url('data:text/plain;base64,YWJj')", 'URL(x)', 'url("http://x/y?z=1#k")', "url('abc\\\ndef')", 'url(  a.png  )', 'url("a\\62")',
          'url("data:image/svg+xml;charset=utf8,%3Csvg xmlns=%27http://www.w3.org/2000/svg%27%3E%3C/svg%3E")',
          'url("data:image/png;base64,iVBORw0KGgo=")', 'url()', 'url("")', "local('Foo Bar')", 'local("Foo")', 'format("woff")', ',']
SEL_Q = [('a', 'type'), ('DIV', 'type'), ('*', 'type'), ('.Cls', 'sub'), ('#Id', 'sub'), (' > ', 'comb'), ('+', 'comb'), (' ~ ', 'comb'), (' ', 'comb'), (' , ', 'comb'),
         ('[type="radio"]', 'sub'), ('[b="c" s]', 'sub'), (':hover', 'sub'), ('::before', 'sub'), (':not(.x)', 'sub'), (':nth-child(2n + 1)', 'sub')]
SEL_T = SEL_Q + [('[b=c s]', 'sub'), ('[b="c d" s]', 'sub'), ('[b="c" s]', 'sub'), ('[b="c" S]', 'sub'), (':HOVER', 'sub'), ('::First-Line', 'sub'), (':nth-child(2N+1 of .Cls)', 'sub'), ('[lang|=EN]', 'sub'), ('[href$=".PDF" s]', 'sub'), ('[a^=\'x\']', 'sub'),
                 ('[data-a=""]', 'sub'), (':is( a , B )', 'sub'), (':where(.X>.Y)', 'sub'), (':has(> IMG)', 'sub'), (':nth-last-child( EVEN )', 'sub'), ('#Id-2', 'sub'), ('.a\\:b', 'sub'),
                 ("[a='b c' i]", 'sub'), ('[ title ~= "x" ]', 'sub'), (':NOT( P , .y )', 'sub'), (':nth-of-type( -n + 3 )', 'sub'), ('[data-x="1a"]', 'sub'),
                 (':lang(EN)', 'sub'), ('[type=a i]', 'sub'), (':nth-child(odd)', 'sub'), ('svg|a', 'type')]


# every range over the code points 0..4, plus shapes around a wildcard block and the 7F/80 boundary:
# all orderings, adjacencies and overlaps appear among the pairs and triples
URANGE_TINY = ['U+%X' % a if a == b else 'U+%X-%X' % (a, b) for a in range(5) for b in range(a, 5)] + \
              ['U+0-7F', 'U+80', 'U+7F-80', 'U+81', 'U+?', 'U+10', 'U+F-10', 'U+2600-26FF', 'U+2680-2700', 'U+2700', 'U+25FF']


def named_colours():
    txt = open(os.path.join(vlib.SPEC, 'CssColorTable.tla')).read()
    return re.findall(r'<<"(\w+)", <<', txt)


def slot_lexemes(fam, slot, tier):
    x = slot[tier]
    if x == 'COLORTOKS_Q':
        return COLORTOKS_Q + named_colours()[::6]
    if x == 'COLORTOKS_T':
        names = named_colours()
        return COLORTOKS_T + names + [n.upper() for n in names[::9]]
    if x == 'STRURL':
        return STRURL
    if x == 'URANGE_TINY':
        return URANGE_TINY
    if x == 'SEL_Q':
        return SEL_Q
    if x == 'SEL_T':
        return SEL_T
    return x


def write_alpha(ctx, exe, tier):
    """Tokenize every lexeme of every alphabet with the harness tokenizer and write the family file
    read by spec/CssGen.tla (environment variable ALPHA)."""
    lexs = []
    for F in FAMS:
        ur = bool(F['props']) and F['props'][0] == 'unicode-range'
        for slot in F['slots']:
            for x in slot_lexemes(F, slot, tier):
                lexs.append((x[0] if isinstance(x, tuple) else x, ur))
    uniq = sorted(set(lexs))
    cin = ctx.path('gen', 'alpha-cases.ndjson')
    cout = ctx.path('gen', 'alpha-items.ndjson')
    with open(cin, 'w') as fh:
        for i, (x, ur) in enumerate(uniq):
            # lexemes of the unicode-range family are tokenized under that descriptor (<urange> production)
            fh.write(json.dumps(dict(id=i, src=list((('unicode-range:' if ur else 'x:') + x if x else 'x:y').encode()), inline=True, css2=False)) + '\n')
    vlib.run([exe, 'dump', cin, cout], timeout=300)
    toks = {}
    for l in open(cout):
        d = json.loads(l)
        x, ur = uniq[d['id']]
        its = d['items']
        toks[(x, ur)] = its[0]['pre'] if (x and its and its[0]['t'] == 'decl') else []
    # selector lexemes are tokenized as preludes
    cin2 = ctx.path('gen', 'alpha-sel.ndjson')
    cout2 = ctx.path('gen', 'alpha-sel-items.ndjson')
    sels = sorted(set(x[0] for F in FAMS if F['kind'] == 'sel' for slot in F['slots'] for x in slot_lexemes(F, slot, tier)))
    with open(cin2, 'w') as fh:
        for i, x in enumerate(sels):
            fh.write(json.dumps(dict(id=i, src=list(('q' + x + 'q{}').encode()), inline=False, css2=False)) + '\n')
    vlib.run([exe, 'dump', cin2, cout2], timeout=300)
    stoks = {}
    for l in open(cout2):
        d = json.loads(l)
        pre = d['items'][0]['pre']
        # strip the two sentinel idents q ... q (they may have merged with an adjacent ident)
        x = sels[d['id']]
        stoks[x] = None
        if pre and pre[0]['k'] == 'ident' and bytes(pre[0]['v']) == b'q' and pre[-1]['k'] == 'ident' and bytes(pre[-1]['v']) == b'q':
            stoks[x] = pre[1:-1]
    fams = []
    for F in FAMS:
        rec = dict(fam=F['fam'], pn=F['props'][0].split(':')[0] if F['props'] else F.get('atname', ''), kind=F['kind'], min=F.get('min', 0),
                   max=F.get('max', dict(q=0, t=0))[tier], fn=F.get('fn', ''), sep=F.get('sep', ''), slots=[])
        for slot in F['slots']:
            ents = []
            for x in slot_lexemes(F, slot, tier):
                if F['kind'] == 'sel':
                    lex, cls = x
                    tk = stoks.get(lex)
                    if tk is None:       # type selectors merge with the sentinels: tokenize by hand
                        tk = [dict(k='ident' if lex != '*' else 'delim', s=list(lex.encode()), v=list(lex.encode()) if lex != '*' else [], n=[], d=[], w=lex.lower() if lex != '*' else '', a=[])] \
                            if '|' not in lex else None
                    if tk is None:
                        continue
                    ents.append(dict(lex=lex, cls=cls, toks=tk, w='', v=[]))
                elif F['kind'] == 'num' and slot is F['slots'][1]:
                    ents.append(dict(lex=x, cls='', toks=[], w=x.lower(), v=list(x.encode())))
                elif F['kind'] == 'num' and slot is F['slots'][2]:
                    ents.append(dict(lex=x, cls='', toks=[], w='', v=[]))
                else:
                    ents.append(dict(lex=x, cls='', toks=toks[(x, bool(F['props']) and F['props'][0] == 'unicode-range')], w='', v=[]))
            rec['slots'].append(ents)
        fams.append(rec)
    p = ctx.path('gen', 'alpha.ndjson')
    vlib.write_ndjson(p, fams)
    return p, fams


def render(F, fam, seq):
    """text of the value (or selector) a generator state stands for; mirrors CssGen!Toks"""
    lex = lambda j: fam['slots'][0 if F['kind'] in ('list', 'sel', 'clist', 'at') else j][seq[j] - 1]['lex']
    n = len(seq)
    if F['kind'] == 'list':
        return ' '.join(lex(j) for j in range(n))
    if F['kind'] == 'sel':
        return ''.join(lex(j) for j in range(n))
    if F['kind'] == 'clist':
        return ','.join(lex(j) for j in range(n))
    if F['kind'] == 'at':
        return ' '.join(lex(j) for j in range(n))
    if F['kind'] == 'func':
        a = [lex(j) for j in range(4)]
        if F['sep'] == 'comma':
            return '%s(%s)' % (F['fn'], ','.join(x for x in a if x != ''))
        return '%s(%s %s %s%s)' % (F['fn'], a[0], a[1], a[2], (' / ' + a[3]) if a[3] != '' else '')
    if F['kind'] == 'num':
        v = lex(0) + lex(1)
        c = lex(2)
        if c == 'top':
            return v
        if c == 'var':
            return 'var(--a,%s)' % v
        return '%s(%s)' % (c, v)
    raise vlib.Infra('unknown family kind')


def parse_dump(path):
    out = []
    cur = {}
    for line in open(path):
        line = line.rstrip('\n')
        if line.startswith('/\\ f = '):
            cur['f'] = int(line[7:])
        elif line.startswith('/\\ seq = '):
            cur['seq'] = vlib.tla_seq_to_list(line[9:])
        elif line.startswith('/\\ ok = '):
            cur['ok'] = line[8:].strip() == 'TRUE'
            out.append(cur)
            cur = {}
    return out


def complete(F, fam, seq):
    if F['kind'] in ('list', 'sel', 'clist', 'at'):
        return len(seq) >= fam['min']
    return len(seq) == len(fam['slots'])


# narrow syntactic constructs of known findings: the generator does not emit them (the pinned
# witnesses in known/C04.ndjson keep the defects visible)
GENERIC_FAMILIES = {'serif', 'sans-serif', 'monospace', 'cursive', 'fantasy', 'system-ui', 'inherit', 'initial', 'unset', 'default', 'revert'}


# VERIF_C04_LIFT=1,9,...: switch single exclusions off (used to verify a fix of the defect in a
# patched tree; an id is the number of the finding: 3 border-color list, 4 quoted generic family, 6 #rrggbb00, 11/12 font family heuristics)
LIFT = set(x for x in os.environ.get('VERIF_C04_LIFT', '').split(',') if x)


def excluded(F, prop, text, lexs, css2):
    for kid, why in _exclusion_hits(F, prop, text, lexs, css2):
        if kid not in LIFT:
            return why
    return None


def _exclusion_hits(F, prop, text, lexs, css2):
    fam = F['fam']
    if fam == 'font':
        sizeish = [j for j, x in enumerate(lexs) if re.match(r'^[\d.]', x) and j > 0 and lexs[j - 1] == '/' or re.match(r'^([\d.]+(px|em|%)|0|medium)$', x, re.I)]
        if len(sizeish) >= 2 and any(lexs[j].lower() == 'medium' for j in sizeish[1:]):
            yield '12', 'font: a font-size keyword as a word of the family name'
        isid = lambda x: re.match(r'^-?[A-Za-z_]', x) is not None
        for j in range(len(lexs)):
            if re.match(r'^-[A-Za-z_-]', lexs[j]) and ((j + 1 < len(lexs) and isid(lexs[j + 1])) or (j > 0 and isid(lexs[j - 1]))):
                yield '11', 'font: identifier starting with a hyphen next to another identifier (family name of several identifiers)'
                break
    if fam == 'bordercolor' and 'currentcolor' in text.lower() and len(lexs) > 1:
        yield '3', 'border-color: currentcolor inside a list of 2-4 colours'
    if fam in ('font', 'fontfamily') and any(len(x) > 2 and x[0] in '"\'' and x[1:-1].lower() in GENERIC_FAMILIES for x in lexs):
        yield '4', 'font-family: quoted generic-family / CSS-wide keyword'
    if fam == 'colortok' and re.match(r'^#[0-9a-fA-F]{6}00$|^#[0-9a-fA-F]{3}0$', text) and text.lower() not in ('#00000000', '#0000'):
        yield '6', 'hex colour with alpha 00 and non-black channels'


# ------------------------------------------------------------------ structure templates
RULES = [
    'a{color:red}', 'A , B > C{margin:0px}', '.x .y + #z ~ q{padding:1px 1px}', 'a:hover::before{content:"x"}',
    'input[type="radio" i]{x:y}', '[class*=" icon-"]{x:y}', 'a{}', 'a{color:red;;color:blue;}', 'a { color : RED !important ; }',
    'a{color:red!IMPORTANT}', 'a{margin:0 ! important}', 'a{--Custom-Var: 0px ;--e:;}', 'a{*zoom:1;_height:1px}',
    'a{color:red /* c */ ; /* d */ margin : 1px /* e */ 2px}', 'li:nth-child( 2n + 1 ){x:y}', 'a:not( .b , .c ){x:y}',
    'DIV.Cls#Id{COLOR:Red}', 'a{background:url( "x.png" ) no-repeat}', 'a{width:calc( 100% - 2 * 1.0px )}', 'a{color:red}b{color:blue}',
    'from{top:0px}50.0%{top:1px}TO{top:2px}', 'a{filter:progid:DXImageTransform.Microsoft.Alpha(Opacity=50)}',
    'a{font:12px/1.0 "Helvetica Neue",Arial}', '*{x:y}', 'a *{x:y}', 'a:is(h1,h2) b{x:y}', '::selection{color:#FFFFFF}',
    'a{transition:all .30s ease-in-out 0s}', 'a{grid-template-areas:"a b" "c d"}', 'a{content:"\\201C"}',
]
AT_SIMPLE = [
    '@charset "utf-8";', '@import "a.css";', "@import url('a.css');", '@import url(a.css);', '@import url( a.css ) screen;', '@IMPORT "a.css" screen and (min-width:1px);',
    '@namespace svg url(http://www.w3.org/2000/svg);', '@import url("a.css") ;',
]
AT_BLOCKS = [
    ('@media screen{', '}'), ('@MEDIA only screen and (max-width : 800px) , print{', '}'), ('@media (min-width:0px) and (max-width:100.0px){', '}'),
    ('@supports (display:grid) and (not (display:inline-grid)){', '}'), ('@media screen{@media (min-width:1px){', '}}'),
    ('@-webkit-keyframes K{', '}'), ('@keyframes Spin{', '}'), ('@document url(http://x/){', '}'), ('@layer base{', '}'), ('@container (min-width:0px){', '}'),
    ('@media screen and (-webkit-min-device-pixel-ratio:1.50),(min-resolution:144dpi){', '}'),
]
AT_DECL = [
    '@font-face{font-family:"My Font";src:url("a.woff") format("woff"),local( "My Font" );unicode-range:U+0000-00FF,U+0131;font-weight:bold}',
    '@font-face{font-family:Foo;src:url(a.eot?#iefix) format("embedded-opentype")}',
    '@page :first{margin:1.0in 0in}', '@page{size:A4;margin:0cm}', '@counter-style x{system:cyclic;symbols:"*"}', '@viewport{width:device-width}',
    '@font-face{unicode-range:U+26??,U+2680-2690}',
]


def import_cases():
    """@import with every spelling of the target (incl. one-character urls and white space before a quoted url:
    fixed findings 13 and 14)"""
    out = []
    for t in ('x', 'ab', 'a.css', 'a/b.css?v=1', 'A.CSS'):
        forms = ['url(%s)', 'url( %s )', 'url("%s")', "url('%s')", 'URL(%s)', '"%s"', "'%s'", 'url(%s )', 'url(\n%s\n)', "url( '%s' )", 'url(\n"%s" )']
        for f in forms:
            for tail in ('', ' screen', ' screen and (min-width : 0px)', ' supports(display:grid)'):
                out.append('@import ' + (f % t) + tail + ';')
    return out


# values with white space runs INSIDE tokens (strings, quoted urls), alone and nested in blocks and
# functions: for every place where the minifier handles a value as raw bytes (custom properties,
# unknown at-rules and their blocks, declarations it passes through, raw runs)
STRWS = ['"a  b"', "'x\t y'", '"a\\\n  b"', '"  lead"', "'trail  '", '"a\t\tb"', 'url("a  b")', "url( 'a  b' )", '("a  b")', 'f("a  b" , 1)',
         '[ "a  b" ]', '{ "a  b" }', 'g( h( \'p   q\' ) )', '"a  b" \'c   d\'', '"it\'s   x"', '"\\"  q"']


def rawbyte_cases():
    inline, sheets = [], []
    for v in STRWS:
        inline += ['--x:%s' % v, '--x: %s ;--y:1' % v, '--Long-Name:0px  %s  0px' % v, 'content:%s' % v, 'x:%s' % v, 'x:(%s)' % v, 'x: a %s b' % v,
                   'quotes:%s %s' % (v, v), '*zoom:%s' % v, 'color red %s' % v, 'grid-template-areas:%s' % v, 'filter:progid:X.Y(a=%s)' % v,
                   'background:url(x) %s' % v, 'font-family:%s' % v]
        sheets += ['@foo %s;' % v, '@foo %s{a:b}' % v, '@foo{ a: %s ; b{ c:%s } }' % (v, v), '@layer L{ a{content:%s} }' % v, '@media screen{a{--x:%s}}' % v,
                   '@font-face{font-family:F;src:local(%s)}' % v, '@supports (content:%s){a{x:y}}' % v, '@charset %s;' % v, 'a{b:c;%s}' % v]
        if v[0] in '"\'' and ' ' not in v.strip('"\'').strip() or True:
            if v[0] in '"\'' and v.count(v[0]) == 2:
                sheets.append('[a=%s]{x:y}' % v)
                sheets.append('a[title~=%s i] , b{x:y}' % v)
    return inline, sheets


def struct_cases(ctx):
    out = []
    inl, sh = rawbyte_cases()
    for t in inl:
        out.append(mk(t, True, False, 'struct:rawbytes'))
        out.append(mk('a{' + t + '}', False, ctx.rnd.random() < 0.5, 'struct:rawbytes'))
    texts = list(RULES) + list(AT_SIMPLE) + list(AT_DECL) + import_cases() + sh
    for a, b in AT_BLOCKS:
        texts.append(a + b)
        for r in (RULES if not ctx.quick() else ctx.rnd.sample(RULES, 6)):
            texts.append(a + r + b)
    for x in AT_SIMPLE:
        texts.append(x + RULES[0])
    for x in AT_DECL:
        texts.append(x + '\n' + RULES[1])
    pairs = [(ctx.rnd.choice(RULES), ctx.rnd.choice(RULES + AT_DECL)) for _ in range(40 if ctx.quick() else 400)]
    for x, y in pairs:
        texts.append(x + ' ' + y)
        texts.append('<!-- ' + x + ' --> ' + y)
    for t in texts:
        out.append(mk(t, False, False, 'struct'))
        if not ctx.quick():
            out.append(mk(t, False, True, 'struct'))
            out.append(mk(t.replace('{', ' {\n  ').replace(';', ' ;\n  ').replace('}', '\n}\n'), False, False, 'struct:spaced'))
    return out


def gen_cases(ctx):
    tier = 'q' if ctx.quick() else 't'
    exe = vlib.build_harness(ctx, 'c04')
    alpha, fams = write_alpha(ctx, exe, tier)
    dump = ctx.path('gen', 'cssgen')
    r = vlib.tlc_mc(ctx, 'CssGen', 'CssGen.cfg', dump=dump, env={'ALPHA': alpha}, heap='6g', timeout=1500,
                    workers=min(8, vlib.NCPU))
    states = sorted(parse_dump(dump + '.dump'), key=lambda st: (st['f'], len(st['seq']), st['seq']))   # TLC workers dump in any order
    ctx.coverage['generator_states'] = r['distinct']
    cases = []
    per_fam = {}
    excl = {}
    cap = 1500 if ctx.quick() else 20000
    nok = {}
    for st in states:
        if st['ok']:
            nok[FAMS[st['f'] - 1]['fam']] = nok.get(FAMS[st['f'] - 1]['fam'], 0) + 1
    keep_p = {k: min(1.0, cap / float(v)) for k, v in nok.items()}
    ctx.coverage['family_sampling'] = {k: round(v, 3) for k, v in keep_p.items() if v < 1.0}
    for st in states:
        F, fam = FAMS[st['f'] - 1], fams[st['f'] - 1]
        if not complete(F, fam, st['seq']):
            continue
        text = render(F, fam, st['seq'])
        lexs = [fam['slots'][0 if F['kind'] in ('list', 'sel', 'clist', 'at') else j][c - 1]['lex'] for j, c in enumerate(st['seq'])]
        per_fam.setdefault(F['fam'], [0, 0])
        per_fam[F['fam']][0] += 1
        if F['kind'] == 'sel':
            if not st['ok']:
                continue
            per_fam[F['fam']][1] += 1
            cases.append(mk(text + '{x:y}', False, False, 'gen:sel'))
            continue
        if F['kind'] == 'at':
            if not st['ok']:
                continue
            per_fam[F['fam']][1] += 1
            for css2 in ((False,) if ctx.quick() else (False, True)):
                cases.append(mk('@%s %s{a{color:#FF0000}}' % (F['atname'], text), False, css2, 'gen:' + F['fam']))
            if not ctx.quick():
                cases.append(mk('@%s  %s  {\n a { color : #FF0000 }\n}' % (F['atname'].upper(), text.replace(' ', '   ')), False, False, 'gen:' + F['fam']))
            continue
        if not st['ok'] and ctx.rnd.random() > (0.05 if ctx.quick() else 0.1):
            continue        # values outside the meaning functions' domain: a sample only (totality of the code)
        if st['ok'] and ctx.rnd.random() > keep_p.get(F['fam'], 1.0):
            continue        # family above the per-family cap: seeded sample
        per_fam[F['fam']][1] += 1
        props = [p for p in F['props'] if not p.endswith(':EXCL')]
        if len(props) > 1:
            props = [props[0]] if ctx.rnd.random() < 0.5 else [ctx.rnd.choice(props)]
        for prop in props:
            decl = '%s:%s' % (prop, text)
            variants = [(True, False), (False, False), (True, True), (False, True)]
            variants = [ctx.rnd.choice(variants)] if ctx.quick() else ctx.rnd.sample(variants, 2)
            for inline, css2 in variants:
                why = excluded(F, prop, text, lexs, css2)
                if why:
                    excl[why] = excl.get(why, 0) + 1
                    continue
                cases.append(mk(decl if inline else 'a{' + decl + '}', inline, css2, 'gen:' + F['fam']))
    ctx.coverage['generated_per_family'] = {k: dict(complete=v[0], emitted=v[1]) for k, v in per_fam.items()}
    ctx.coverage['generator_exclusions'] = excl
    return cases


def run(ctx):
    import time
    t0 = time.time()
    exe = vlib.build_harness(ctx, 'c04')
    cases = []
    cases += gen_cases(ctx)
    vlib.log('C04: build + model checking + generation %.0fs' % (time.time() - t0))
    cases += struct_cases(ctx)
    cases += repo_test_cases(ctx)
    cases += corpus_cases(ctx)
    for c in vlib.known_cases(PID):
        cases.append(mk(c['src'].encode('latin1'), c['inline'], c['css2'], 'known'))
    # de-duplicate
    seen, uniq = set(), []
    for c in cases:
        k = (c['src'], c['inline'], c['css2'])
        if k not in seen:
            seen.add(k)
            uniq.append(c)
    cases = uniq
    t1 = time.time()
    outs, per_case, stats = validate(ctx, exe, cases, 'main')
    vlib.log('C04: %d cases run and %d distinct lines validated in %.0fs' % (len(cases), stats['distinct_lines'], time.time() - t1))
    ctx.coverage.update(stats)
    # every rejected case is re-run alone (fresh driver process) and re-validated before it counts
    bad = sorted(per_case)
    reproduced = 0
    if bad:
        sub = [dict(cases[ci]) for ci in bad[:MAX_RERUN]]
        outs2, pc2, _ = validate(ctx, exe, sub, 'rerun', isolated=True)
        for k, c in enumerate(sub):
            if k in pc2:
                reproduced += 1
                ctx.report(ident(c), describe(c, outs2.get(k, b''), pc2[k]), replay_obj=dict(rejects=pc2[k]))
    if len(bad) > MAX_RERUN:
        vlib.log('%d rejected cases, only the first %d were re-run individually' % (len(bad), MAX_RERUN))
    ctx.coverage['rejections'] = len(bad)
    ctx.coverage['rejections_reproduced'] = reproduced
    nontrivial = set()
    samples = []
    for ci, c in enumerate(cases):
        if c.get('changed'):
            nontrivial.add((c['src'], c['inline'], c['css2']))
            if len(samples) < 10 and len(c['src']) < 100 and ci % 997 == 0:
                samples.append(dict(src=c['src'].decode('latin1'), inline=c['inline'], css2=c['css2'],
                                    out=outs.get(ci, b'').decode('latin1'), origin=c['origin']))
    if not samples and cases:
        c = cases[0]
        samples.append(dict(src=c['src'].decode('latin1')[:200], inline=c['inline'], css2=c['css2']))
    by_origin = {}
    for c in cases:
        o = c['origin'].split(':')[0] + ':' + c['origin'].split(':')[1] if c['origin'].startswith('gen:') else c['origin'].split(':')[0]
        by_origin[o] = by_origin.get(o, 0) + 1
    ctx.coverage.update(dict(
        traces_validated_against_impl=stats['accepted'],
        evaluations=stats['lines'],
        cases=len(cases),
        cases_by_origin=by_origin,
        distinct_nontrivial=len(nontrivial),
        rule=RULE,
        samples=samples,
    ))
    ctx.assumptions += ASSUMPTIONS


def replay(ctx, obj):
    exe = vlib.build_harness(ctx, 'c04')
    c = obj['case']
    case = mk(c['src'].encode('latin1'), c['inline'], c['css2'], 'replay')
    outs, pc, _ = validate(ctx, exe, [case], 'replay', isolated=True)
    print(describe(case, outs.get(0, b''), pc.get(0, [])))
    if 0 in pc:
        print('VIOLATION property=C04 replay=given')
        return 1
    return 0


RULE = ('a case is (text, inline?, KeepCSS2?) run through the real css.Minifier; one trace line per item position '
        '(rule / at-rule / declaration / raw run / end of block) of input and output; non-trivial = the minifier output '
        'differs from the input text.  Sources: every state of the CssGen automaton inside the bounds of the tier '
        '(per family all token lists up to the family arity over the alphabets in tools/props/c04.py; families above '
        'the per-family cap are sampled with the seed), css_test.go inputs in inline and wrapped stylesheet mode, '
        '_benchmarks/*.css, tests/css/corpus.  Inputs with CSS Syntax parse errors (bad string/url, unbalanced brackets, '
        'a comment as the only separator of two tokens) are outside the checked domain and only counted.  Generator '
        'exclusions (narrow constructs of known findings, pinned in known/C04.ndjson) are listed under generator_exclusions.')
ASSUMPTIONS = [
    'harness/cmd/c04 tokenizer.go + parser.go implement CSS Syntax Level 3 sections 4 and 5 (independent of tdewolff/parse); '
    'at-rule block kinds: media/supports/document/keyframes = rule list, font-face/page = declaration list, others raw tokens',
    'TLC evaluates CssEq.ItemVerdict (spec/CssEq.tla, CssShorthand.tla, CssValue.tla, CssColor.tla, NumVal.tla)',
    'named colour table transcribed from golang.org/x/image/colornames (SVG 1.1) + rebeccapurple, not from the code under test',
    'values outside the domain of the meaning functions (var() inside shorthands, non-integer hsl arguments, rounding ties, '
    'invalid values for the property grammar) are accepted vacuously, decided on the INPUT only; counted as outside_domain',
    'type selectors / pseudo names are ASCII case-insensitive (HTML), class, id and attribute parts are not; '
    'data: URLs are compared by decoded payload only (media type part belongs to C18)',
]


META = dict(
    category='model_checking',
    text='The meaning the property talks about is defined in TLA+ (spec/CssValue.tla: exact rational value and unit of numbers, '
         'zero-length rule, decoded strings/URLs, pass-through tokens; spec/CssColor.tla: sRGB channels and alpha of hex, rgb(), '
         'hsl() and the named colours of the standard, in exact integer arithmetic; spec/CssShorthand.tla: longhand expansion of '
         'margin/padding/border-width, border*/outline/column-rule/text-decoration/text-emphasis, background and its longhands '
         '(position as offsets from the left/top edge), font/font-family/font-weight, flex family, box-shadow, unicode-range as '
         'code point intervals; spec/CssEq.tla: selectors, at-rule preludes, items).  TLC model-checks the generator automaton '
         'spec/CssGen.tla exhaustively within the bounds of the tier (every token list up to the family arity over the alphabets): '
         'in every state the meaning functions are evaluated (totality) and the design model - each documented rewrite transcribed '
         'as an operator on token lists - must preserve the meaning.  Every enumerated value (sampled above a per-family cap), the '
         'inputs of css_test.go, the benchmark style sheets and the fuzz corpus are run through the real css.Minifier '
         '(inline/stylesheet, KeepCSS2 on/off, Precision 0); input and output are projected by an independent CSS Syntax 3 '
         'tokenizer/parser in the harness and TLC evaluates the relation CssEq.ItemVerdict on every item position of every run.',
    design_ref='DESIGN.md section 4, C04; Appendix B (CSS)',
    note='Trusted: TLC; the harness tokenizer/parser (harness/cmd/c04) as reading of CSS Syntax 3; the meaning functions as reading of '
         'the CSS modules cited in the spec comments.  Limits: values outside the meaning functions\' domain are accepted vacuously '
         '(counted: outside_domain); malformed inputs (CSS Syntax parse errors) are not judged; data: URLs by payload only; type '
         'selector / namespace prefix case is treated as insignificant; Precision > 0 belongs to C16.',
    technique='TLA+ meaning functions and generator automaton model-checked with TLC + TLC trace validation of real minifier runs',
)
