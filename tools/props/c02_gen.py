"""Program generators for C02 (identifier shortening).

render_tree   : a scope tree emitted by TLC from spec/JsRenamer.tla -> a JS program
pressure      : programs the bounded model cannot reach with the real 54/64 letter alphabet
random_program: seeded random nesting of every scope kind with a small pool of names (shadowing
                at every level) that contains the first names the renamer hands out

Conventions of every generated program: each binding holds a distinct string, every reference is
observable through the host function out(...), uses come after the declarations of their own scope
(no temporal dead zone), nested functions are called.

Excluded constructs (known findings, all scoping defects of the parse dependency; see known/C02.txt):
a loop body block that re-declares the loop variable's name and refers to that name before the inner declaration
(C02/tdz); `var` inside a class static block (C02/static-var); parameter defaults/patterns of, and array or object
literals containing identifiers inside the body of, an object-literal method/accessor that is written inside a
parenthesised expression (C02/paren-method); a function whose parameter default references a name that its body
declares with `var` (C02/default-var), or declares at all when the function also has a rest parameter
(C02/rest-default).  Fixed and generated again since 1428ce2 / 1b51557: lexical declarations in static blocks,
references from a with body (or from a with-function) to locals of enclosing functions and blocks.
Not a renaming matter but avoided (reported to C09): in a function whose names are kept because of a `with`, a name
is never both a var and a lexical name - hoistVars may put `var x` next to `let x`.
"""

# the order in which the minifier hands out names is private to it; these are all names of length 1
ONE = list('abcdefghijklmnopqrstuvwxyzABCDEFGHIJKLMNOPQRSTUVWXYZ_$')
FIRST = list('etnsoiarcldu')                       # a guess at the first ones, used as preferred free names
TWO = ['ee', 'te', 'ne', 'et', 'tt', 'nt', 'of', 'as', 'is', 'no', 'on', 'to', 'at', 'or', 'dn', 'io', 'ie']   # valid identifiers only


# ------------------------------------------------------------------------------------------------
# reference contexts: one observable statement that refers to the given names
# ------------------------------------------------------------------------------------------------
PLAIN_CTX = [
    'out(%(a)s);', 'out((%(a)s));', 'out((%(a)s,%(b)s));', 'out(%(a)s+"|"+%(b)s);', 'out(%(a)s?%(b)s:%(c)s);',
    'out(typeof %(a)s,%(b)s);', 'out((()=>%(a)s)());', 'out((function(){return %(a)s})());', 'out(((p=%(a)s)=>p)());',
    'out(`${%(a)s}-${%(b)s}`);', 'out(%(a)s??%(b)s,%(a)s||%(b)s,%(a)s&&%(b)s);', 'out((q=>q+%(a)s)("q"));',
    'out(((...p)=>p.length)(%(a)s,%(b)s));', 'out(String(%(a)s).length,%(b)s);', 'out(%(a)s===%(b)s,%(a)s!=%(c)s);',
    'if(%(a)s)out(%(b)s);else out(%(c)s);', 'out(%(a)s,%(a)s,%(a)s);',
]
LITERAL_CTX = [
    'out([%(a)s,%(b)s]);', 'out({%(a)s});', 'out({k:%(a)s,%(b)s});', 'out({[%(a)s]:%(b)s});', 'out(...[%(a)s,%(b)s]);',
    'out([...[%(a)s],%(b)s]);', 'out({...{%(a)s}});', 'out((({%(a)s:p})=>p)({%(a)s:%(b)s}));', 'out((([p,q])=>q)([%(a)s,%(b)s]));',
    'out([%(a)s].map(p=>[p,%(b)s]));', 'out(new(class{f=%(a)s;g(){return[this.f,%(b)s]}})().g());',
    'out({get p(){return %(a)s}}.p,[%(b)s][0]);',
]


def ref(rnd, names, plain=False):
    a, b, c = (rnd.choice(names) for _ in range(3))
    forms = PLAIN_CTX if plain or rnd.random() < 0.5 else LITERAL_CTX
    return rnd.choice(forms) % dict(a=a, b=b, c=c)


# ------------------------------------------------------------------------------------------------
# MC trees
# ------------------------------------------------------------------------------------------------
def render_plain(t):
    """the plain rendering used for the DRIFT comparison with the design model: anonymous function
    expressions and bare blocks only, so that the program declares exactly the bindings of the tree"""
    units = t['units']
    kids = {}
    for i, u in enumerate(units):
        kids.setdefault(u['par'], []).append(i)

    def unit(i):
        u = units[i]
        b = ''.join('var %s="V%d_%s";' % (nm, i, nm) for nm in u['vs'])
        b += ''.join('out("u%d",%s);' % (i, nm) for nm in u['us'])
        b += ''.join(unit(k) for k in kids.get(i + 1, []))
        lets = ''.join('let %s="L%d_%s";' % (nm, i, nm) for nm in u['ls'])
        if u.get('fl'):
            return 'if(out.no)return;else{%s%s}' % (lets, b)
        if u['kind'] == 'F':
            if u['w']:
                b = 'with({}){' + b + '}'
            return '(function(%s){%s%s})(%s);' % (','.join(u['ps']), lets, b, ','.join('"P%d_%s"' % (i, p) for p in u['ps']))
        return '{%s%s}' % (lets, b)
    return ''.join('let %s="T_%s";' % (nm, nm) for nm in t['top']) + ''.join(unit(k) for k in kids.get(0, []))


def render_tree(t, rnd):
    """t = {'units': [...], 'top': [...]}; returns JS source"""
    units = t['units']
    kids = {}
    for i, u in enumerate(units):
        kids.setdefault(u['par'], []).append(i)
    out = []
    for nm in t['top']:
        out.append('let %s="T_%s";' % (nm, nm))

    def inner(i, pm):
        u = units[i]
        s = []
        for nm in u['vs']:
            s.append('var %s="V%d_%s";' % (nm, i, nm))
        for nm in u['us']:
            if rnd.random() < 0.6:
                s.append('out("u%d",%s);' % (i, nm))
            else:
                s.append(ref(rnd, [nm], plain=pm))
        for k in kids.get(i + 1, []):
            s.append(unit(k, pm))
        return ''.join(s)

    def unit(i, pm=False):
        u = units[i]
        if u['kind'] == 'F':
            ps = ','.join(u['ps'])
            args = ','.join('"P%d_%s"' % (i, p) for p in u['ps'])
            lets = ''.join('let %s="L%d_%s";' % (nm, i, nm) for nm in u['ls'])
            style = rnd.choice(['iife', 'arrow', 'named', 'method'])
            # (inside a parenthesised object-literal method no array/object literals: known finding C02/paren-method)
            b = inner(i, pm or style == 'method')
            if u['w']:
                owned = [nm for nm in sorted(set(u['us']) | set(u['ls'])) if rnd.random() < 0.5]
                b = 'with({%s}){%s}' % (','.join('%s:"W%d_%s"' % (nm, i, nm) for nm in owned), b)
            if style == 'iife':
                return '(function(%s){%s%s})(%s);' % (ps, lets, b, args)
            if style == 'arrow':
                return '((%s)=>{%s%s})(%s);' % (ps, lets, b, args)
            if style == 'named':
                return '(function fn%d(%s){%s%s})(%s);' % (i, ps, lets, b, args)
            return '({m(%s){%s%s}}).m(%s);' % (ps, lets, b, args)
        # block unit: every lexical scope kind the minifier renames on entry
        ls = list(u['ls'])
        b = inner(i, pm)
        if u.get('fl'):
            # flattened into the statement list of its function by optimizeStmtList
            return rnd.choice(['if(out.no)return;else{%s%s}', 'if(out.no){return}else{%s%s}', 'if(!out.no){%s%s}else return;']) % (
                ''.join('let %s="L%d_%s";' % (nm, i, nm) for nm in ls), b)
        styles = ['block', 'switch', 'if', 'finally', 'try']
        if len(ls) == 1:
            styles += ['catch', 'forof', 'for']
        if len(ls) >= 2:
            styles += ['forofd']
        style = rnd.choice(styles)
        lets = ''.join('let %s="L%d_%s";' % (nm, i, nm) for nm in ls)
        if style == 'block':
            return '{%s%s}' % (lets, b)
        if style == 'switch':
            return 'switch(1){case 1:%s%s}' % (lets, b)
        if style == 'if':
            return 'if(out){%s%s}' % (lets, b)
        if style == 'finally':
            return 'try{}finally{%s%s}' % (lets, b)
        if style == 'try':
            return 'try{%s%s}catch(err){out("caught")}' % (lets, b)
        if style == 'catch':
            return 'try{throw "L%d_%s"}catch(%s){%s}' % (i, ls[0], ls[0], b)
        if style == 'forof':
            return 'for(let %s of ["L%d_%s"]){%s}' % (ls[0], i, ls[0], b)
        if style == 'for':
            return 'for(let %s="L%d_%s";out.k!==%d;out.k=%d){%s}' % (ls[0], i, ls[0], i, i, b)
        return 'for(let [%s] of [[%s]]){%s}' % (','.join(ls), ','.join('"L%d_%s"' % (i, x) for x in ls), b)

    for k in kids.get(0, []):
        out.append(unit(k))
    return ''.join(out)


# ------------------------------------------------------------------------------------------------
# pressure programs
# ------------------------------------------------------------------------------------------------
def _names(n, prefix='v'):
    return ['%s%d_' % (prefix, i) for i in range(n)]


def many_bindings(n, kw, rnd, free=(), uses='some', inner=True):
    """n bindings in ONE function scope; forces two and three letter names, do/if/in/of"""
    vs = _names(n)
    if kw == 'param':
        head = 'function f(%s){' % ','.join(vs)
        decl = ''
        call = 'f(%s);' % ','.join(str(i) for i in range(min(n, 40)))
    else:
        head = 'function f(){'
        if kw == 'mix':
            decl = ''.join('%s %s=%d;' % (rnd.choice(['var', 'let', 'const']), v, i) for i, v in enumerate(vs))
        elif kw == 'onevar':
            decl = 'var ' + ','.join('%s=%d' % (v, i) for i, v in enumerate(vs)) + ';'
        else:
            decl = ''.join('%s %s=%d;' % (kw, v, i) for i, v in enumerate(vs))
        call = 'f();'
    step = 1 if uses == 'all' else rnd.choice([3, 7, 11])
    us = ''.join('out(%s);' % v for v in vs[::step])
    # use counts decide the order of names: give a few bindings many uses
    hot = rnd.sample(vs, min(5, n))
    us += ''.join('out(%s,%s);' % (h, h) for h in hot)
    fr = ''.join('out(typeof %s);' % g for g in free)
    inn = ''
    if inner:
        cap = rnd.sample(vs, min(4, n))
        inn = 'return function(q){let w=q;return [%s,w,%s]}' % (','.join(cap), ','.join(free) if free else '0')
        call = 'out(%s(1));' % call.rstrip(';') if not free else call
    return head + decl + us + fr + inn + '}' + call


def free_like_generated(rnd, k):
    """free variables named like the first names handed out: all one-letter names, both cases, $ and _"""
    free = rnd.sample(ONE, k) if k < len(ONE) else list(ONE)
    nloc = rnd.choice([1, 2, 3, 5, 8, 13, 30, 54, 60])
    loc = _names(nloc, 'q')
    s = 'function f(%s){' % ','.join(loc[:min(3, nloc)])
    s += ''.join('var %s="V%d";' % (v, i) for i, v in enumerate(loc[3:]))
    s += ''.join('out(%s);' % v for v in loc)
    s += ''.join('out(%s);' % g for g in free)
    s += 'return function(){let z="Z",y="Y";out(z,y,%s,%s)}' % (loc[0], rnd.choice(free))
    s += '}f("a","b","c")();'
    return s


def shadow_chain(rnd, depth, names=None):
    names = names or rnd.sample(FIRST + ['x', 'y'], 3)
    kinds = ['func', 'block', 'arrow', 'for', 'catch', 'switch', 'method', 'classm', 'getter']

    def lvl(d):
        if d == depth:
            return ''.join('out(%d,%s);' % (d, n) for n in names)
        k = rnd.choice(kinds)
        decl = rnd.sample(names, rnd.randint(1, len(names)))
        use = ''.join('out(%d,%s);' % (d, n) for n in names)
        nxt = lvl(d + 1)
        vals = ['"D%d_%s"' % (d, n) for n in decl]
        if k == 'func':
            return use + '(function(%s){%s%s})(%s);' % (','.join(decl), ''.join('out(%s);' % n for n in decl), nxt, ','.join(vals))
        if k == 'arrow':
            return use + '((%s)=>{%s%s})(%s);' % (','.join(decl), ''.join('out(%s);' % n for n in decl), nxt, ','.join(vals))
        if k == 'block':
            return use + '{%s%s%s}' % (''.join('let %s=%s;' % (n, v) for n, v in zip(decl, vals)), ''.join('out(%s);' % n for n in decl), nxt)
        if k == 'for':
            return use + 'for(let [%s] of [[%s]]){%s%s}' % (','.join(decl), ','.join(vals), ''.join('out(%s);' % n for n in decl), nxt)
        if k == 'catch':
            return use + 'try{throw %s}catch(%s){out(%s);%s}' % (vals[0], decl[0], decl[0], nxt)
        if k == 'switch':
            return use + 'switch(0){default:%s%s%s}' % (''.join('const %s=%s;' % (n, v) for n, v in zip(decl, vals)), ''.join('out(%s);' % n for n in decl), nxt)
        if k == 'method':
            return use + '({m(%s){%s%s}}).m(%s);' % (','.join(decl), ''.join('out(%s);' % n for n in decl), nxt, ','.join(vals))
        if k == 'classm':
            return use + '(new class{m(%s){%s%s}}).m(%s);' % (','.join(decl), ''.join('out(%s);' % n for n in decl), nxt, ','.join(vals))
        return use + '({get g(){%s%s%s}}).g;' % (''.join('let %s=%s;' % (n, v) for n, v in zip(decl, vals)), ''.join('out(%s);' % n for n in decl), nxt)
    return 'function top(%s){%s}top(%s);' % (','.join(names), lvl(1), ','.join('"T_%s"' % n for n in names))


def loop_closures(rnd):
    v = rnd.choice(FIRST + ['i', 'k'])
    w = rnd.choice([x for x in FIRST if x != v])
    g = rnd.choice([x for x in ONE if x not in (v, w)])
    kind = rnd.choice(['let', 'of', 'in', 'var'])
    if kind == 'let':
        loop = 'for(let %s=0;%s<3;%s++){let %s=%s*2;fs.push(()=>[%s,%s,typeof %s])}' % (v, v, v, w, v, v, w, g)
    elif kind == 'of':
        loop = 'for(const %s of [1,2,3]){let %s=%s*2;fs.push(function(){return [%s,%s,typeof %s]})}' % (v, w, v, v, w, g)
    elif kind == 'in':
        loop = 'for(let %s in {p:1,q:2}){const %s=%s+"!";fs.push(()=>[%s,%s,typeof %s])}' % (v, w, v, v, w, g)
    else:
        loop = 'for(var %s=0;%s<3;%s++){let %s=%s*2;fs.push(()=>[%s,%s,typeof %s])}' % (v, v, v, w, v, v, w, g)
    return 'function f(){var fs=[];%s;for(const h of fs)out(h())}f();' % loop


def params_defaults(rnd):
    a, b, c, d, e = rnd.sample(FIRST + ['x', 'y', 'z'], 5)
    g = rnd.choice([x for x in ONE if x not in (a, b, c, d, e)])
    forms = [
        # default refers to an outer variable that the body re-declares: parameter scope vs body scope
        'var %(g)s="G";function f(%(a)s=()=>%(g)s){var %(g)s="B";out(%(a)s(),%(g)s)}f();',
        'function f(%(a)s,%(b)s=%(a)s+"1",{%(c)s,%(d)s:[%(e)s]}={%(c)s:"C",%(d)s:["E"]},...%(g)s){out(%(a)s,%(b)s,%(c)s,%(e)s,%(g)s)}f("A");',
        'function f({%(a)s,%(b)s=%(a)s},[%(c)s,,%(d)s]=["c",0,"d"]){let %(e)s=%(a)s+%(c)s;out(%(a)s,%(b)s,%(c)s,%(d)s,%(e)s,typeof %(g)s)}f({%(a)s:"A"});',
        'function f(%(a)s,%(b)s){return function(%(c)s=%(a)s,%(d)s=()=>%(b)s){var %(e)s=%(d)s();out(%(a)s,%(b)s,%(c)s,%(e)s,typeof %(g)s)}}f("A","B")();',
        'var o=(%(a)s,%(b)s=%(a)s)=>(%(c)s=%(b)s)=>{out(%(a)s,%(b)s,%(c)s,typeof %(g)s)};o("A")();',
        'function f(%(a)s){var %(a)s;var %(b)s="B";out(%(a)s,%(b)s,typeof %(g)s)}f("A");',
        'function f(%(a)s,%(b)s=function(){return %(a)s}){var %(a)s="A2";out(%(a)s,%(b)s())}f("A");',
        'function f(%(a)s){out(arguments.length,arguments[0],%(a)s);return function(%(b)s){out(arguments[0],%(a)s,%(b)s)}}f("A","x")("B");',
    ]
    return rnd.choice(forms) % dict(a=a, b=b, c=c, d=d, e=e, g=g)


def class_scopes(rnd):
    a, b, c, d = rnd.sample(FIRST + ['x', 'y'], 4)
    g = rnd.choice([x for x in ONE if x not in (a, b, c, d)])
    forms = [
        'function f(%(a)s){class %(b)s{constructor(%(c)s){this.%(c)s=%(c)s+%(a)s}get %(d)s(){let %(a)s="in";return %(a)s+this.%(c)s}static s(%(d)s){return %(d)s+%(a)s}m(%(d)s=%(a)s){return %(b)s.s(%(d)s)}}let %(c)s=new %(b)s("C");out(%(c)s.%(d)s,%(c)s.m(),typeof %(g)s)}f("A");',
        'function f(%(a)s){var %(b)s=class %(c)s{static p=%(a)s;q=%(a)s+"q";static who(){return %(c)s.p}};out(%(b)s.who(),new %(b)s().q,typeof %(c)s,typeof %(g)s)}f("A");',
        'function f(%(a)s){let %(b)s={%(a)s,%(c)s:%(a)s,[%(a)s]:1,m(%(d)s){return %(d)s+%(a)s},get g(){return %(a)s},set s(%(d)s){out(%(d)s,%(a)s)}};%(b)s.s="S";out(%(b)s.%(a)s,%(b)s.%(c)s,%(b)s.m("M"),%(b)s.g,Object.keys(%(b)s))}f("A");',
        'function f(){let {%(a)s,%(b)s:%(c)s,...%(d)s}={%(a)s:1,%(b)s:2,z:3};out(%(a)s,%(c)s,%(d)s);({%(a)s,%(b)s:%(c)s}={%(a)s:4,%(b)s:5});out(%(a)s,%(c)s,typeof %(g)s)}f();',
        'function f(%(a)s,%(c)s){class %(b)s{static{let %(d)s=%(a)s+"s";const %(c)s=%(d)s;{let %(a)s=%(c)s+"!";out(%(a)s)}out(%(d)s,%(c)s)}static %(d)s=%(a)s+%(c)s}out(%(b)s.%(d)s,typeof %(g)s)}f("A","C");',   # (no `var` in a static block: known finding C02/static-var)
    ]
    return rnd.choice(forms) % dict(a=a, b=b, c=c, d=d, g=g)


def labels_like_generated(rnd):
    l1, l2 = rnd.sample(FIRST, 2)
    a, b = rnd.sample([x for x in FIRST + ['x', 'y'] if x not in (l1, l2)], 2)
    form = rnd.choice([
        'function f(){var %(a)s=0,%(b)s="B";%(l1)s:for(;;){%(l2)s:for(let %(l1)s=0;%(l1)s<3;%(l1)s++){%(a)s++;if(%(l1)s==1)continue %(l1)s;if(%(a)s>4)break %(l1)s;out(%(l1)s,%(a)s,%(b)s);continue %(l2)s}}out(%(a)s)}f();',
        'function f(%(l1)s){%(l1)s:{let %(l2)s=%(l1)s+"!";out(%(l2)s);if(%(l2)s)break %(l1)s;out("no")}%(l2)s:{out(%(l1)s);break %(l2)s}}f("A");',
    ])
    return form % dict(l1=l1, l2=l2, a=a, b=b)


def inner_uses_outer_and_global(rnd):
    """an inner scope uses an outer (renamed) variable AND a global whose name is one of the short names"""
    gs = rnd.sample(ONE, rnd.choice([1, 2, 4, 8]))
    n_out = rnd.choice([1, 2, 3, 6])
    outs = _names(n_out, 'o')
    n_in = rnd.choice([1, 2, 3, 6])
    ins = _names(n_in, 'i')
    kind = rnd.choice(['function', 'arrow', 'block', 'for', 'catch'])
    inner_use = ''.join('out(%s);' % x for x in outs + ins) + ''.join('out(typeof %s);' % g for g in gs)
    vals = ','.join('"I%d"' % k for k in range(n_in))
    if kind == 'function':
        inner = '(function(%s){%s})(%s);' % (','.join(ins), inner_use, vals)
    elif kind == 'arrow':
        inner = '((%s)=>{%s})(%s);' % (','.join(ins), inner_use, vals)
    elif kind == 'block':
        inner = '{%s%s}' % (''.join('let %s="I%d";' % (x, k) for k, x in enumerate(ins)), inner_use)
    elif kind == 'for':
        inner = 'for(let [%s] of [[%s]]){%s}' % (','.join(ins), vals, inner_use)
    else:
        inner = 'try{throw "I0"}catch(%s){%s%s}' % (ins[0], ''.join('let %s="I%d";' % (x, k + 1) for k, x in enumerate(ins[1:])), inner_use)
    return 'function f(%s){%s%s}f(%s);' % (','.join(outs), ''.join('out(%s);' % x for x in outs), inner, ','.join('"O%d"' % k for k in range(n_out)))


def hoisting(rnd):
    """several var statements in nested blocks of one function plus inner lexical names"""
    a, b, c, d, e = rnd.sample(FIRST + ['x', 'y', 'z'], 5)
    g = rnd.choice([x for x in ONE if x not in (a, b, c, d, e)])
    forms = [
        'function f(%(a)s){var %(b)s="B";{let %(c)s="C";var %(d)s="D";out(%(c)s,%(d)s);{let %(b)s="b2";var %(e)s="E";out(%(b)s,%(e)s,%(c)s)}}out(%(a)s,%(b)s,%(d)s,%(e)s,typeof %(g)s)}f("A");',
        'function f(){for(var %(a)s=0;%(a)s<2;%(a)s++){let %(b)s=%(a)s;var %(c)s="C"+%(b)s;out(%(b)s,%(c)s)}try{var %(d)s="D";let %(a)s="shadow";out(%(a)s,%(d)s)}catch(%(e)s){var %(b)s=%(e)s}out(%(a)s,%(b)s,%(c)s,%(d)s,typeof %(g)s)}f();',
        'function f(%(a)s){if(%(a)s){var %(b)s="B";let %(c)s="C";out(%(b)s,%(c)s)}else{var %(d)s="D";const %(c)s="C2";out(%(d)s,%(c)s)}switch(%(a)s){case"A":var %(e)s="E";let %(b)s="lb";out(%(e)s,%(b)s)}out(%(a)s,%(b)s,%(d)s,%(e)s,typeof %(g)s)}f("A");',
        'function f(){out(%(a)s);{let %(b)s="B";{let %(c)s="C";{var %(a)s="A";out(%(a)s,%(b)s,%(c)s)}}}var %(d)s="D";out(%(a)s,%(d)s,typeof %(g)s)}f();',
    ]
    if rnd.random() < 0.5:
        return rnd.choice(forms) % dict(a=a, b=b, c=c, d=d, e=e, g=g)
    # the surviving `var` statement sits inside nested lexical blocks; other vars of the function join it there
    names = rnd.sample(FIRST + ['x', 'y', 'z', 'w', 'k'], 9)
    lex, vs = names[:4], names[4:]
    depth = rnd.randint(1, 3)
    inner = 'var %s;' % ','.join('%s="V%d"' % (v, i) for i, v in enumerate(vs[:rnd.randint(1, 3)]))
    inner += ''.join('out(%s);' % v for v in vs)
    for dpt in range(depth):
        l = lex[dpt]
        wrap = rnd.choice(['{let %s="L%d";out(%s);%s}', 'for(let %s of ["L%d"]){out(%s);%s}', 'try{throw "L%d"}catch(%s){out(%s);%s}',
                           'switch(0){default:const %s="L%d";out(%s);%s}'])
        if wrap.startswith('try'):
            inner = wrap % (dpt, l, l, inner)
        else:
            inner = wrap % (l, dpt, l, inner)
    rest = ''.join(rnd.choice(['var %s="W%d";', '{var %s="W%d";}', 'if(out){var %s="W%d"}else{out(0)}']) % (v, i) for i, v in enumerate(vs[3:]))
    order = [inner, rest]
    rnd.shuffle(order)
    return 'function f(%s){%s%s%s}f("P");' % (lex[3], ''.join(order), ''.join('out(%s);' % v for v in vs), 'out(typeof %s);' % g)


def with_own(rnd):
    """functions containing `with`: own names must stay; nested functions without with may be renamed"""
    a, b, c, d = rnd.sample(FIRST + ['x', 'y'], 4)
    forms = [
        'function f(%(a)s,%(b)s){var %(c)s="C";with({%(c)s:"wc"}){out(%(a)s,%(b)s,%(c)s)}return %(c)s}out(f("A","B"));',
        'function f(%(a)s){let %(b)s="B";with({%(b)s:"wb",%(a)s:"wa"}){out(%(a)s,%(b)s);(function(%(c)s){let %(d)s=%(c)s+"!";out(%(c)s,%(d)s)})("C")}}f("A");',
        'function g(%(d)s){function f(%(a)s){var %(b)s="B";with({%(b)s:"wb"}){out(%(a)s,%(b)s)}}f(%(d)s);let %(c)s="C";out(%(c)s,%(d)s)}g("D");',
        'function f(%(a)s){{let %(b)s="B";with({}){out(%(a)s,%(b)s)}}for(let %(c)s of [1])with({%(c)s:2})out(%(c)s)}f("A");',
        '({m(%(a)s,%(b)s){var %(c)s="C";with({%(c)s:"wc",%(a)s:"wa"}){out(%(a)s,%(b)s,%(c)s)}return %(c)s}}).m("A","B");',
        '((%(a)s,%(b)s)=>{let %(c)s="C";with({%(c)s:"wc",%(b)s:"wb"}){out(%(a)s,%(b)s,%(c)s)}})("A","B");',
        'function f(%(a)s){try{throw "E"}catch(%(b)s){with({%(b)s:"wb"}){out(%(a)s,%(b)s)}}switch(1){case 1:let %(c)s="C";with({%(c)s:"wc"})out(%(c)s)}}f("A");',
        'function g(%(a)s){var %(b)s="B";function f(%(c)s){with(%(c)s){return [%(a)s,%(b)s]}}let %(d)s=f({%(b)s:"wb"});out(%(d)s,f({}))}g("A");',
        '{let %(a)s="A";const %(b)s="B";with({%(a)s:"wa"}){out(%(a)s,%(b)s)}(function(%(c)s){with(%(c)s)out(%(a)s,%(b)s)})({%(b)s:"wb"})}',
        'function g(%(a)s){let %(b)s="B";return (%(c)s)=>{var %(d)s="D";with(%(c)s){out(%(a)s,%(b)s,%(d)s)}return function(){return %(a)s+%(b)s}}}out(g("A")({%(a)s:"wa",%(d)s:"wd"})());',
        'function g(%(a)s){var %(b)s="Q";(function(){var %(c)s="I";out(%(b)s,%(c)s,%(a)s);with({}){}})();(function(%(d)s){let %(c)s=%(d)s+%(b)s;out(%(c)s)})("n")}g("A");',
        'function g(%(a)s){for(let %(b)s of ["B"]){let %(c)s="C";({m(%(d)s){with(%(d)s){out(%(a)s,%(b)s,%(c)s)}}}).m({%(c)s:"wc"})}}g("A");',
    ]
    return rnd.choice(forms) % dict(a=a, b=b, c=c, d=d)


NESTED_FN = [
    '[1].map(%(p)s=>%(p)s+%(a)s);', 'out([1].map((%(p)s,%(q)s)=>{let %(r)s=%(p)s;return %(r)s}));', '(function(%(p)s){let %(r)s=%(p)s;out(%(r)s)})("n");',
    '(function fn(%(p)s){return %(p)s})(1);', '({m(%(p)s){return %(p)s}}).m(1);', '({get g(){let %(r)s=1;return %(r)s}}).g;',
    'new(class{m(%(p)s){return %(p)s}})().m(1);', '(class{static m(%(p)s){let %(r)s=%(p)s;return %(r)s}}).m(1);', '[...(function*(%(p)s){yield %(p)s})(1)];',
    'var fx=%(p)s=>%(p)s;fx(1);', '(()=>{})();', '(async %(p)s=>%(p)s)(1);',
]
LATER_SCOPE = [
    'for(let %(c)s=0;%(c)s<2;%(c)s++){out(%(c)s)}', '{let %(c)s="b";const %(d)s="d";out(%(c)s,%(d)s)}', 'switch(1){case 1:let %(c)s="s";out(%(c)s)}',
    'try{throw "t"}catch(%(c)s){out(%(c)s)}', 'for(const %(c)s of ["o"]){out(%(c)s)}', 'for(let %(c)s in {k:1}){out(%(c)s)}',
    'try{let %(c)s="y";out(%(c)s)}finally{const %(d)s="f";out(%(d)s)}', 'if(out){let %(c)s="i";out(%(c)s)}else{let %(d)s="e";out(%(d)s)}',
    'l:{let %(c)s="l";out(%(c)s);break l}', 'for(let [%(c)s,%(d)s] of [["x","y"]]){with({%(c)s:100}){out(%(c)s,%(d)s)}}',
]


def with_nested_then_scope(rnd, i=None):
    """a function that contains `with`, a nested function of some kind WITHOUT `with` that is emitted first, and a later
    block-level scope of the with-function: every own name of the with-function must stay (the rename flag is saved,
    set and restored around every nested function).  The with body only refers to own names of its function."""
    names = rnd.sample(FIRST + ['x', 'y', 'count', 'idx', 'tmp'], 7)
    a, p, q, r, c, d, v = names
    k = i if i is not None else rnd.randrange(len(NESTED_FN) * len(LATER_SCOPE))
    nested = NESTED_FN[k % len(NESTED_FN)] % dict(a=a, p=p, q=q, r=r)
    later = LATER_SCOPE[(k // len(NESTED_FN)) % len(LATER_SCOPE)] % dict(c=c, d=d)
    withs = rnd.choice(['with(wo){}', 'with(wo){out(%s)}' % a, 'with({%s:100}){out(%s)}' % (c, a)])
    parts = [withs, nested, later, 'var %s="V";out(%s);' % (v, v)]
    if rnd.random() < 0.5:
        parts = [nested, later, withs, 'var %s="V";out(%s);' % (v, v)]      # the with statement may also come last
    wrap = rnd.choice(['function f(wo,%s){%s}f({},"A");', '(function(wo,%s){%s})({},"A");', '((wo,%s)=>{%s})({},"A");',
                       'var ob={m(wo,%s){%s}};ob.m({},"A");', 'function g(){return function(wo,%s){%s}}g()({},"A");'])
    return wrap % (a, ''.join(parts))


SHORT = list('etnsoiarcl')          # the first names the renamer hands out: used as ORIGINAL names in every position
VERSIONS = [0, 5, 2015, 2018, 2019, 2020]


N_FLATTEN = 90       # contexts x shapes of flatten_blocks


def flatten_blocks(rnd, k=None, first=False):
    """blocks whose lexical bindings move into the enclosing scope when the statement list is optimised (else-block
    after a flow statement, single-statement and nested blocks, labelled blocks, switch cases): the bindings must be in
    the enclosing scope's list BEFORE that scope is renamed.  Original names are short names in every position."""
    if first:
        # the moved bindings are ORIGINALLY spelled like the very first names handed out (which go to the parameters)
        L, M = rnd.sample(SHORT[:3], 2)
        A, B, I, K = rnd.sample(SHORT[3:], 4)
    else:
        A, B, L, M, I, K = rnd.sample(SHORT[:7], 6)
    flow_ctx = [
        # (wrapper with %(body)s, flow statement that leaves)
        ('function f(%(A)s,%(B)s){switch(%(A)s){case 1:%(body)sdefault:out("d",%(B)s)}}f(1,5);', 'break'),
        ('function f(%(A)s,%(B)s){switch(%(A)s){case 0:out(0);case 1:%(body)s}out(%(A)s)}f(1,5);', 'break'),
        ('function f(%(A)s,%(B)s){for(let %(I)s=0;%(I)s<2;%(I)s++){%(body)s}}f(1,5);', 'continue'),
        ('function f(%(A)s,%(B)s){for(const %(I)s of [1,2]){%(body)s}}f(1,5);', 'break'),
        ('function f(%(A)s,%(B)s){var %(I)s=0;while(%(I)s++<2){%(body)s}}f(1,5);', 'continue'),
        ('function f(%(A)s,%(B)s){%(body)sout("end",%(A)s)}f(1,5);', 'return'),
        ('function f(%(A)s,%(B)s){try{%(body)s}catch(%(I)s){out("c",%(A)s)}}f(1,5);', 'throw 0'),
        ('var f=(%(A)s,%(B)s)=>{%(body)s};f(1,5);', 'return'),
        ('var ob={m(%(A)s,%(B)s){do{%(body)s}while(0)}};ob.m(1,5);', 'break'),      # (not parenthesised: C02/paren-method)
        ('function f(%(A)s,%(B)s){%(K)s:{%(body)s}}f(1,5);', 'break %(K)s'),
    ]
    decls = [
        'let %(L)s=%(B)s*2;out(%(L)s,%(A)s,%(B)s);',
        'const %(L)s=%(B)s*2,%(M)s=%(L)s+1;out(%(L)s,%(M)s,%(A)s);',
        'let %(L)s=%(B)s;{let %(M)s=%(L)s+%(A)s;out(%(M)s)}out(%(L)s);',
        'class %(L)s{static s=%(A)s}out(%(L)s.s,%(B)s);',
        'let {%(L)s,k:%(M)s}={%(L)s:%(A)s,k:%(B)s};out(%(L)s,%(M)s);',
        'const %(L)s=()=>%(A)s+%(B)s;let %(M)s=%(L)s();out(%(M)s);',
    ]
    shapes = [
        'if(%(B)s<0)%(flow)s;else{%(d)s}',                 # else-block after a flow statement
        'if(%(B)s<0){%(flow)s}else{%(d)s}',
        'if(%(B)s>0){%(d)s}else %(flow)s;',
        'if(%(B)s<0)%(flow)s;else if(%(A)s){%(d)s}',
        '{%(d)s}',                                         # bare block
        '{{%(d)s}}',
        'if(%(A)s){%(d)s}',
        '%(K)s:{%(d)sif(%(A)s)break %(K)s;out("x")}',
        'if(%(B)s<0)%(flow)s;{%(d)s}',
    ]
    if k is None:
        k = rnd.randrange(len(flow_ctx) * len(shapes))
    assert len(flow_ctx) * len(shapes) == N_FLATTEN
    w, flow = flow_ctx[k % len(flow_ctx)]
    names = dict(A=A, B=B, L=L, M=M, I=I, K=K)
    flow = flow % names
    d = rnd.choice(decls) % names
    shape = shapes[(k // len(flow_ctx)) % len(shapes)]
    if 'break %s' % K in flow and '%(K)s:' in shape:
        shape = shapes[0]
    body = shape % dict(names, flow=flow, d=d)
    return w % dict(names, body=body)


def catch_unused(rnd):
    """an unused catch parameter named like a short name; the catch block uses other variables (the parameter is
    dropped from the syntax only for targets >= ES2019: crossed with js.Minifier.Version by the caller)"""
    P, Q, V, W, X = rnd.sample(SHORT[:6], 5)
    forms = [
        'function f(%(P)s,%(Q)s){try{%(Q)s()}catch(%(V)s){%(P)s("failed",typeof %(W)s)}}f(out,function(){throw 1});',
        'function f(%(P)s,%(Q)s){let %(W)s="W";try{%(Q)s()}catch(%(V)s){let %(X)s=%(W)s+"!";%(P)s(%(X)s,%(W)s)}finally{%(P)s("fin")}}f(out,function(){throw 1});',
        'function f(%(P)s,%(Q)s){try{throw %(Q)s}catch(%(V)s){(function(%(X)s){%(P)s(%(X)s,%(Q)s)})("in")}}f(out,"q");',
        'var f=(%(P)s,%(Q)s)=>{for(const %(W)s of [1,2]){try{throw %(W)s}catch(%(V)s){%(P)s(%(W)s,%(Q)s)}}};f(out,"q");',
        'function f(%(P)s,%(Q)s){try{throw 1}catch(%(V)s){try{throw 2}catch(%(X)s){%(P)s(%(Q)s)}}}f(out,"q");',
        'function f(%(P)s,%(Q)s){try{throw 1}catch(%(V)s){%(P)s(%(V)s,%(Q)s)}}f(out,"q");',        # used: control
        'function f(%(P)s,%(Q)s){try{throw {%(W)s:1}}catch({%(W)s:%(V)s}){%(P)s(%(Q)s)}}f(out,"q");',
    ]
    return rnd.choice(forms) % dict(P=P, Q=Q, V=V, W=W, X=X)


def module_program(rnd):
    a, b, c, d = rnd.sample(FIRST + ['x', 'y'], 4)
    forms = [
        'import %(a)s,{%(b)s as %(c)s,%(d)s} from "m";export function f(%(b)s){let q=%(b)s+%(c)s;return q+%(a)s+%(d)s}export const k=f(1);export{k as %(b)s};',
        'import*as %(a)s from "m";export default function(%(b)s){var %(c)s=%(a)s.%(b)s;return %(c)s+%(b)s}export let %(d)s=1;',
        'export class %(a)s{m(%(b)s){let %(c)s=%(b)s;return %(c)s}}export*from"n";export{%(d)s as default}from"n";let z=function(%(d)s){return %(d)s+1};export{z}',
    ]
    return rnd.choice(forms) % dict(a=a, b=b, c=c, d=d)


# ------------------------------------------------------------------------------------------------
# random nesting
# ------------------------------------------------------------------------------------------------
POOL = ['e', 't', 'n', 's', 'o', 'i', 'a', 'r', 'x', 'y', '$', '_', 'ee', 'te', 'v1', 'E', 'T']
FN_POOL = ['fe', 'ft', 'nn', 'F1', 'tt']
CL_POOL = ['Ce', 'Ct', 'K1']
WVAR = POOL[0::2]      # in programs with `with`: names used for var declarations and parameters ...
WLEX = POOL[1::2]      # ... and names used for let/const, loop and catch variables


class _Gen:
    """Rules that keep the program valid: a let/const never repeats a lexical name, a parameter (at
    function level), the loop/catch variable of its own construct, or a var written directly in the same
    block; a var never crosses a lexical declaration of its name on the way up to its function."""

    def __init__(self, rnd, maxdepth):
        self.r = rnd
        self.maxdepth = maxdepth
        self.n = 0
        self.paren_method = 0     # >0 while generating the body of an object-literal method written inside (...)
        self.with_program = rnd.random() < 0.3   # the program contains with statements
        self.withfn = False       # the function being generated contains a with statement
        self.strict = 0           # >0 inside class bodies (strict mode: no with)

    def val(self, name):
        self.n += 1
        return '"%d_%s"' % (self.n, name)

    def uses(self, k):
        # (no array/object literal with identifiers inside a parenthesised object-literal method:
        #  known finding C02/paren-method)
        return ''.join(ref(self.r, POOL, plain=self.paren_method > 0) for _ in range(k))

    # A program that contains `with` anywhere keeps the names of every function around it (fix 1b51557), so in such a
    # program (self.with_program) a name is either a var/parameter name or a lexical name, never both: hoistVars may
    # move `var x` into a var statement that sits inside a block declaring x lexically, and with renaming switched off
    # nothing makes the two differ - invalid output, reported to C09, not a renaming matter.
    def dpool(self):
        return POOL

    def vpool(self):
        return WVAR if self.with_program else POOL

    def lpool(self):
        return WLEX if self.with_program else POOL

    def emit_decls(self, decls):
        """decls: list of (kw, name); consecutive declarations with the same keyword are sometimes written as
        one destructuring declaration (shorthand patterns must be re-expanded when the bound name changes)"""
        r = self.r
        s = []
        i = 0
        while i < len(decls):
            kw, nm = decls[i]
            j = i + 1
            while j < len(decls) and decls[j][0] == kw and j - i < 3:
                j += 1
            grp = [d[1] for d in decls[i:j]]
            f = r.random()
            if f < 0.2:
                pats, vals = [], []
                for k, x in enumerate(grp):
                    form = r.choice(['sh', 'kv', 'nest', 'dflt'])
                    if form == 'sh':
                        pats.append(x); vals.append('%s:%s' % (x, self.val(x)))
                    elif form == 'kv':
                        pats.append('k%d:%s' % (k, x)); vals.append('k%d:%s' % (k, self.val(x)))
                    elif form == 'nest':
                        pats.append('n%d:[%s]' % (k, x)); vals.append('n%d:[%s]' % (k, self.val(x)))
                    else:
                        pats.append('%s=%s' % (x, self.val(x)))
                s.append('%s {%s}={%s};' % (kw, ','.join(pats), ','.join(vals)))
            elif f < 0.35:
                pats, vals = [], []
                for x in grp:
                    if r.random() < 0.3:
                        pats.append('%s=%s' % (x, self.val(x))); vals.append('void 0')
                    else:
                        pats.append(x); vals.append(self.val(x))
                s.append('%s [%s]=[%s];' % (kw, ','.join(pats), ','.join(vals)))
            elif f < 0.5 and len(grp) > 1:
                s.append('%s %s;' % (kw, ','.join('%s=%s' % (x, self.val(x)) for x in grp)))
            else:
                s.extend('%s %s=%s;' % (kw, x, self.val(x)) for x in grp)
            i = j
        return ''.join(s)

    def scope(self, depth, is_func, no_let, no_var):
        """no_let: names a lexical declaration of THIS scope must avoid; no_var: names a var written
        here (or deeper) must avoid"""
        r = self.r
        s = []
        lex, vars_ = set(), set()
        decls = []
        for nm in r.sample(self.dpool(), r.choice([0, 1, 1, 2, 2, 3, 4])):
            kw = r.choice(['let', 'const', 'var', 'var'])
            if self.with_program:
                kw = r.choice(['let', 'const']) if nm in WLEX else 'var'
            if kw == 'var' and (nm in no_var or nm in lex):
                kw = 'let'
                if self.with_program:
                    continue
            if kw != 'var' and (nm in no_let or nm in lex or nm in vars_):
                continue
            (vars_ if kw == 'var' else lex).add(nm)
            decls.append((kw, nm))
        s.append(self.emit_decls(decls))
        tail = ''
        with_stmt = ''
        if is_func and self.withfn:
            # nothing is referenced inside the with body, so the excluded construct (with-outer) cannot arise, but the
            # function - including every block scope and every code after nested functions - must keep its names
            # the with body refers to anything in sight: own names, locals of the functions around, free names
            owned = r.sample(POOL, r.randint(0, 3))
            with_stmt = r.choice(['with({}){}', 'with({%s}){%s}' % (','.join('%s:%s' % (n, self.val(n)) for n in owned), self.uses(r.randint(1, 3)))])
            if r.random() < 0.5:
                s.append(with_stmt)
                with_stmt = ''
        if is_func and r.random() < 0.3:
            # a function declaration of the function's top level, called before its text (hoisting), and a class
            fn = r.choice(FN_POOL)
            p = r.choice(POOL)
            s.append('%s(%s);' % (fn, self.val(p)))
            tail += 'function %s(%s){%s}' % (fn, p, ''.join(ref(r, POOL + [p], plain=self.paren_method > 0) for _ in range(2)))
        if r.random() < 0.15:
            cn = r.choice(CL_POOL)
            a, b = r.choice(POOL), r.choice(POOL)
            s.append('class %s{static s=%s;f=%s;m(%s){return %s+"|"+this.f}}out(%s.s,new %s().m("q"));' % (cn, a, b, a, a, cn, cn))
        s.append(self.uses(r.randint(1, 4)))
        if depth < self.maxdepth:
            for _ in range(r.choice([0, 1, 1, 2])):
                # a var in a nested block would also collide with a let written later in this scope: none is
                s.append(self.child(depth + 1, no_var | lex))
            s.append(self.uses(r.randint(0, 2)))
        return ''.join(s) + with_stmt + tail

    def params(self, ps, plain=False):
        """parameter list and argument list for the parameter names ps: plain, defaulted (the default refers to
        a name that is not a parameter of the same function: no temporal dead zone), destructured"""
        r = self.r
        pl, al = [], []
        for k, p in enumerate(ps):
            f = r.random()
            if f < 0.6 or plain:
                pl.append(p); al.append(self.val(p))
            elif f < 0.75:
                d = r.choice([x for x in POOL if x not in ps])
                self.default_names.add(d)
                pl.append('%s=%s' % (p, d)); al.append('void 0')
            elif f < 0.85:
                pl.append('{%s}' % p); al.append('{%s:%s}' % (p, self.val(p)))
            elif f < 0.93:
                pl.append('{k:%s=%s}' % (p, self.val(p))); al.append('{}')
            else:
                pl.append('[%s]' % p); al.append('[%s]' % self.val(p))
        self.has_rest = False
        if ps and not plain and r.random() < 0.1:
            pl[-1] = '...' + ps[-1]
            al[-1] = self.val(ps[-1])
            self.has_rest = True
        return ','.join(pl), ','.join(al)

    def func_body(self, depth, ps, no_var=(), no_let=()):
        # no_var: names referenced by parameter defaults of this function - the body never declares them with
        # `var` (known finding C02/default-var); with a rest parameter it does not declare them at all
        # (no_let; known finding C02/rest-default)
        return self.scope(depth, True, set(ps) | set(no_let), set(no_var))

    def child(self, depth, no_var):
        r = self.r
        k = r.choice(['func', 'func', 'arrow', 'block', 'block', 'for', 'forof', 'catch', 'switch', 'method',
                      'named', 'getter', 'if', 'labeled', 'classm', 'gen', 'forpat', 'forvar', 'forin', 'catchpat',
                      'switch2', 'elseblock', 'catchunused', 'bare'])
        if k in ('func', 'arrow', 'method', 'named', 'classm', 'gen'):
            saved_withfn = self.withfn
            self.withfn = self.with_program and not self.strict and k != 'classm' and r.random() < 0.3
            ps = r.sample(self.vpool(), r.choice([0, 1, 2, 3]))
            # (a parenthesised object-literal method gets plain parameters: known finding C02/paren-method)
            self.default_names = set()
            pl, args = self.params(ps, plain=(k == 'method'))
            dn = self.default_names
            nl = dn if self.has_rest else set()
            if k == 'method':
                self.paren_method += 1
            if k == 'classm':
                self.strict += 1
            body = self.func_body(depth, ps, dn, nl)
            if k == 'classm':
                self.strict -= 1
            if k == 'method':
                self.paren_method -= 1
            self.withfn = saved_withfn
            if k == 'func':
                return '(function(%s){%s})(%s);' % (pl, body, args)
            if k == 'arrow':
                return '((%s)=>{%s})(%s);' % (pl, body, args)
            if k == 'named':
                # the function's own name is never one of the names that references use: a function value put
                # into a string context would expose its source text (reflection, outside the property)
                fn = r.choice(FN_POOL)
                return '(function %s(%s){out(typeof %s);%s})(%s);' % (fn, pl, fn, body, args)
            if k == 'classm':
                return r.choice(['new(class{m(%s){%s}})().m(%s);', '(class{static m(%s){%s}}).m(%s);']) % (pl, body, args)
            if k == 'gen':
                return '[...(function*(%s){%syield 1})(%s)];' % (pl, body, args)
            return '({m(%s){%s}}).m(%s);' % (pl, body, args)
        if k == 'getter':
            saved_withfn = self.withfn
            self.withfn = self.with_program and not self.strict and r.random() < 0.3
            self.paren_method += 1
            body = self.func_body(depth, [])
            self.paren_method -= 1
            self.withfn = saved_withfn
            return '({get g(){%s}}).g;' % body
        if k == 'block':
            return '{%s}' % self.scope(depth, False, set(), no_var)
        if k == 'if':
            return 'if(out){%s}else{%s}' % (self.scope(depth, False, set(), no_var), self.scope(depth, False, set(), no_var))
        if k == 'labeled':
            lb = r.choice(POOL)
            return '%s:{{%s}break %s}' % (lb, self.scope(depth, False, set(), no_var), lb)
        if k == 'switch':
            return 'switch(1){case 1:%s}' % self.scope(depth, False, set(), no_var)
        if k == 'elseblock':
            # the else-block is flattened into the surrounding statement list (labelled block, switch case or loop body)
            a = self.scope(depth, False, set(), no_var)
            lb = r.choice(FN_POOL)
            return r.choice(['%(l)s:{if(out.no)break %(l)s;else{%(a)s}}', 'switch(1){case 1:if(out.no)break;else{%(a)s}}',
                             'for(const %(l)s of [1]){if(out.no)continue;else{%(a)s}}', 'do{if(out.no)break;else{%(a)s}}while(0);']) % dict(l=lb, a=a)
        if k == 'bare':
            return r.choice(['{{%s}}', 'if(out){{%s}}']) % self.scope(depth, False, set(), no_var)
        if k == 'catchunused':
            v = r.choice(self.lpool())
            return 'try{throw 1}catch(%s){%s}' % (v, self.scope(depth, False, {v}, no_var | {v}))
        if k == 'switch2':
            a = self.scope(depth, False, set(), no_var)
            return 'switch(2){case 1:out("no");case 2:%sdefault:%s}' % (a, self.uses(1))
        if k == 'forpat':
            v, w = r.sample(self.lpool(), 2)
            inner = 'out(%s,%s);' % (v, w) + self.scope(depth, False, {v, w}, no_var | {v, w})
            if r.random() < 0.5:
                return 'for(const [%s,%s] of [[%s,%s]]){%s}' % (v, w, self.val(v), self.val(w), inner)
            return 'for(let {%s,k:%s} of [{%s:%s,k:%s}]){%s}' % (v, w, v, self.val(v), self.val(w), inner)
        if k == 'forvar':
            cand = [x for x in self.vpool() if x not in no_var]
            if cand:
                v = r.choice(cand)
                inner = 'out(%s);' % v + self.scope(depth, False, {v}, no_var)
                return r.choice(['for(var %s of [%s]){%s}', 'for(var %s in {%s:1}){%s}']) % (v, self.val(v), inner)
            k = 'forin'
        if k == 'forin':
            v = r.choice(self.lpool())
            inner = 'out(%s);' % v + self.scope(depth, False, {v}, no_var | {v})
            return 'for(const %s in {%s:1}){%s}' % (v, self.val(v), inner)
        if k == 'catchpat':
            v, w = r.sample(self.lpool(), 2)
            inner = self.scope(depth, False, {v, w}, no_var | {v, w})
            return 'try{throw {m:%s,n:[%s]}}catch({m:%s,n:[%s]}){out(%s,%s);%s}' % (self.val(v), self.val(w), v, w, v, w, inner)
        v = r.choice(self.lpool())
        if k in ('for', 'forof'):
            # the body block may declare the loop variable's name again (a separate scope in ECMAScript), but then
            # nothing refers to that name before the inner declaration (temporal dead zone; known finding C02/tdz)
            if r.random() < 0.3:
                head = 'let %s=%s;out(%s);' % (v, self.val(v), v)
            else:
                head = 'out(%s);' % v
            inner = head + self.scope(depth, False, {v}, no_var | {v})
            if k == 'for':
                self.n += 1
                return 'for(let %s=%s;out.k!==%d;out.k=%d){%s}' % (v, self.val(v), self.n, self.n, inner)
            return 'for(const %s of [%s]){%s}' % (v, self.val(v), inner)
        inner = self.scope(depth, False, {v}, no_var | {v})
        return 'try{throw %s}catch(%s){out(%s);%s}' % (self.val(v), v, v, inner)


def random_program(rnd, maxdepth=3):
    g = _Gen(rnd, maxdepth)
    # a few top-level declarations that must stay, everything else inside one function
    tops = rnd.sample(['e', 't', 'n', 'G1', 'G2'], 2)
    head = ''.join('var %s="TOP_%s";' % (t, t) for t in tops)
    ps = rnd.sample(g.vpool(), 2)
    return head + 'function main(%s){%s}main("A","B");' % (','.join(ps), g.func_body(1, ps))
