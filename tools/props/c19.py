"""C19  The CLI writes the library's output to the right place and never harms inputs.

MC : CliPlanGen - every tree of <= MaxFiles entries of a fixed universe x every invocation shape; TLC
     evaluates Plan (spec/CliPlan.tla, the documented semantics) on all of them, checks design-level
     claims about it and prints the identifiers of the scenarios whose outcome is determined.
GEN: a seeded, per-shape stratified sample of those + driver-built scenarios (bundles around read-buffer
     boundaries, inputs that fail late, empty/large files, every file type) + pinned witnesses;
     C19Plan (TLC) renders each scenario and its plan (which library calls are needed).
RUN: harness/cmd/c19 materialises the tree, calls the LIBRARY for every planned minification, runs the
     REAL binary built from cmd/minify with cwd = the scratch tree, records the final tree/exit/stdout.
TV : C19Trace (TLC) evaluates the property relation against Plan on every record.
"""
import json
import os

import vlib

PID = 'C19'


def b2s(x):
    return bytes(x).decode('latin1')


def s2b(s):
    return list(s if isinstance(s, (bytes, bytearray)) else s.encode('latin1'))


# ---- contents ---------------------------------------------------------------------------------
JS_OK = ['var a = 1 ;\n', 'function f ( x ) { return x + 1 ; }\nf( 2 ) ;\n', 'let s = "a" + "b" ; // c\n', '',
         'if ( a ) { b ( ) } else { c ( ) }\n', 'var big = 10000000000 , x = 0.50 ;\n', 'a ( )']
JS_BAD = ['var = ;\n', 'var a = 10000000000 ;\nvar = 3 ;', 'function ( {\n']
CSS_OK = ['a { color : red ; }\n', 'body { margin : 0px ; padding : 0 0 0 0 }\n', '', '.x , .y { top : 0.50em }']
HTML_OK = ['<html><body><p> hi  there </p></body></html>\n', '<!DOCTYPE html><p title="a  b"> x </p><script> var a = 1 ; </script>', '']
HTML_BAD = ['<p>x</p><script> var = ; </script>', '<p title="a  b"> 1e+10 </p><script>x = 10000000000 ; var = ;</script>',
            '<DIV CLASS="A  B"> <P> Hi </P> </DIV><SCRIPT> var = ; </SCRIPT>']   # the last one: names are lower-cased in the buffer before the script fails
JSON_OK = ['{ "a" : 1e+10 , "b" : [ 1 , 2 ] }\n', '[ 1.50 , true , null ]', '{ }']
JSON_BAD = ['{ "a" : 1e+10 , "b" : }', '[ 100000 , 0.50 , ', '{ "a" : 1000000.0 , "b" : 0.50 , "c" : }']   # numbers are rewritten in the buffer before the error
SVG_OK = ['<svg xmlns="http://www.w3.org/2000/svg"><path d="M 0 0 L 10 10"/> </svg>\n']
XML_OK = ['<?xml version="1.0"?>\n<a> <b> x </b> </a>\n']
TXT = ['hello  world\n', 'x\n', '', 'a = 1 ;\n']
BAK = ['backup data\n']


def pool_for(path):
    base = path.rsplit('/', 1)[-1]
    ext = base.rsplit('.', 1)[-1] if '.' in base else ''
    return {'js': (JS_OK, JS_BAD), 'mjs': (JS_OK, JS_BAD), 'css': (CSS_OK, []), 'html': (HTML_OK, HTML_BAD),
            'htm': (HTML_OK, HTML_BAD), 'json': (JSON_OK, JSON_BAD), 'svg': (SVG_OK, []), 'xml': (XML_OK, []),
            'bak': (BAK, [])}.get(ext, (TXT, []))


def fill_contents(sc, rnd):
    for e in sc['tree']:
        if e['k'] == 'f' and not e.get('fixed'):
            ok, bad = pool_for(b2s(e['p']))
            s = rnd.choice(bad) if bad and rnd.random() < 0.25 else rnd.choice(ok)
            e['c'] = s2b(s)
    if sc['inv']['stdin']:
        if 'stdin' not in sc or sc.get('stdin') is None:
            ok, bad = {'js': (JS_OK, JS_BAD), 'css': (CSS_OK, [])}.get(sc['inv']['type'], (TXT, []))
            sc['stdin'] = s2b(rnd.choice(bad) if bad and rnd.random() < 0.25 else rnd.choice(ok))
    elif 'stdin' not in sc:
        sc['stdin'] = []


def render_argv(inv):
    """abstract invocation -> argument vector (pure rendering, no semantics)"""
    a = []
    for f, o in (('r', '-r'), ('a', '-a'), ('b', '-b'), ('s', '-s'), ('q', '-q'), ('v', '-v')):
        if inv.get(f):
            a.append(o)
    if inv['type']:
        a.append(('--mime=' if inv.get('mime') else '--type=') + inv['type'])
    for m in inv['match']:
        a.append('--match=' + b2s(m))
    for f in inv['filters']:
        a.append(('--include=' if f['inc'] else '--exclude=') + b2s(f['pat']))
    for e in inv['ext']:
        a.append('--ext.%s=%s' % (b2s(e['e']), e['t']))
    if inv['preserve']:
        a += ['-p', ','.join(inv['preserve'])]
    if inv['output']:
        a += ['-o', b2s(inv['output'])]
    if inv['inputs']:
        a.append('--')
        a += [b2s(i) for i in inv['inputs']]
    return a


BASE_INV = dict(inputs=[], output=[], stdin=False, r=False, a=False, b=False, s=False, type='', match=[], filters=[],
                ext=[], preserve=[], q=False, v=False, mime=False)


def inv(**kw):
    d = dict(BASE_INV)
    for k, v in kw.items():
        if k in ('inputs', 'match'):
            v = [s2b(x) for x in v]
        elif k == 'output':
            v = s2b(v)
        d[k] = v
    return d


def tree(files):
    """files: {path: content str | ('l', target) | ('h', target)} -> entries incl. every directory"""
    ents, dirs = [], set()
    for p in files:
        parts = p.split('/')
        for n in range(1, len(parts)):
            dirs.add('/'.join(parts[:n]))
    for d in sorted(dirs):
        ents.append(dict(p=s2b(d), k='d', c=[], t=[]))
    for p, v in sorted(files.items()):
        if isinstance(v, tuple):
            if v[0] == 'd':
                if p not in dirs:
                    ents.append(dict(p=s2b(p), k='d', c=[], t=[]))
            else:
                ents.append(dict(p=s2b(p), k=v[0], c=[], t=s2b(v[1])))
        else:
            ents.append(dict(p=s2b(p), k='f', c=s2b(v), t=[], fixed=True))
    ents.sort(key=lambda e: bytes(e['p']))
    return ents


def js_of_size(n, name='v', tail='"'):
    """valid JavaScript of exactly n bytes that does NOT end in ';' or a newline, optionally ending in a line comment:
    without the ';' of the separator a following '(' continues the statement, without its newline the next file
    disappears in the comment"""
    if n == 0:
        return ''
    head = 'var %s="' % name
    if n < len(head) + len(tail):
        return ('a' * n)
    return head + 'x' * (n - len(head) - len(tail)) + tail


def css_of_size(n):
    if n < 12:
        return ' ' * n
    return 'a{color:red}' + ' ' * (n - 12)


def extra_scenarios(ctx):
    """driver-built complete scenarios (the plan is still computed by TLC)"""
    out = []
    q = ctx.quick()
    rnd = ctx.rnd

    def add(files, stdin=None, **kw):
        sc = dict(tree=tree(files), inv=inv(**kw))
        if stdin is not None:
            sc['stdin'] = s2b(stdin)
        out.append(sc)

    # bundles whose first file ends around the read-buffer boundaries (the separator may be split across reads)
    # io.ReadAll's buffer is 512, 896, 1408, 2048, 3072, 4096, 5376 bytes: one free byte is left at 511, 895, ...
    sizes = list(range(500, 521)) + list(range(888, 900)) + list(range(1400, 1412)) + list(range(2040, 2052)) + \
        list(range(3066, 3076)) + list(range(4090, 4101)) + list(range(5370, 5380)) + [0, 1, 2, 3]
    if q:
        sizes = sorted(set(rnd.sample(sizes, 14) + [510, 511, 512, 895, 1407, 4095, 4096]))
    for n in sizes:
        # the first file does not end in ';' and the next one may start with '(': without the separator the program changes
        f = {'p1.js': js_of_size(n, 'p', rnd.choice(['"', '"//c'])), 'p2.js': rnd.choice(['', 'q', 'var q="1"', '(function(){q()})()', '[1,2].map(q)']),
             'p3.js': rnd.choice(['var r = 3', '(function(){r()})()'])}
        add(f, inputs=['p1.js', 'p2.js', 'p3.js'], output='all.js', b=True)
        if n % 3 == 0 or not q:
            add(f, inputs=['p2.js', 'p1.js', 'p3.js'], b=True)
        if n % 4 == 0 or not q:
            add({'c1.css': css_of_size(n), 'c2.css': 'b{color:blue}', 'c3.css': css_of_size(rnd.choice([0, 13]))},
                inputs=['c1.css', 'c2.css', 'c3.css'], output='all.css', b=True)
    # the separator is a function of the RESOLVED media type, however it was resolved: extension, --type name, --type media
    # type, --mime, --ext mapping; files need not be called .js; to a file and to stdout; inputs where the separator matters
    # (no trailing ';'/newline and the next file starts with '(' ; trailing // comment without newline)
    pairs = [('var a = 1', '(function(){b()})()', 'var c = 3'), ('var a = 1 //c', 'var b = 2', '[1,2].map(c)')]
    ways = [dict(type='js'), dict(type='application/javascript'), dict(type='js', mime=True), dict(type='application/javascript', mime=True),
            dict(ext=[dict(e=s2b('txt'), t='js')]), dict(ext=[dict(e=s2b('txt'), t='application/javascript')]), dict()]
    combos = [(w, names, dest, pr) for w in ways for names in (('a.txt', 'b.txt', 'c.txt'), ('a.js', 'b.mjs', 'c.js'))
              for dest in ('all.js', None) for pr in pairs
              if not (not w and names[0].endswith('.txt'))]          # plain extension inference needs .js names
    if q:
        combos = [c for k, c in enumerate(combos) if k % 2 == rnd.randrange(2) or c[0].get('mime') or 'ext' in c[0]]
    for w, names, dest, pr in combos:
        if 'ext' in w and not names[0].endswith('.txt'):
            continue
        kw = dict(w, inputs=list(names), b=True)
        if dest:
            kw['output'] = dest
        add(dict(zip(names, pr)), **kw)
    # bundle written onto one of its own sources; bundle of a directory; bundle with an empty file in the middle
    add({'a.js': 'var a = 1', 'x.js': 'var x = 2'}, inputs=['a.js', 'x.js'], output='a.js', b=True)
    add({'a.js': 'var a = 1', 'x.js': 'var x = 2'}, inputs=['a.js', 'x.js'], output='x.js', b=True)
    add({'s/a.css': 'a { top : 0 }', 's/b.css': 'b { top : 0 }', 's/t/c.css': 'c { top : 0 }'}, inputs=['s'], output='style.css', b=True, r=True)
    add({'a.js': 'var a = 1', 'e.js': '', 'x.js': 'var x = 2'}, inputs=['a.js', 'e.js', 'x.js'], output='o.js', b=True)
    # inputs that fail late, after the minifier has rewritten earlier tokens: destination must hold the ORIGINAL bytes
    late = {'h.html': HTML_BAD[1], 'u.html': HTML_BAD[2], 'j.json': JSON_BAD[0], 'k.json': JSON_BAD[1], 'm.json': JSON_BAD[2], 'b.js': JS_BAD[1], 'g.js': 'var ok = 1 ;\n',
            'c.css': 'a { color : red }'}
    add(late, inputs=['h.html', 'u.html', 'j.json', 'k.json', 'm.json', 'b.js', 'g.js', 'c.css'], output='out/')
    add(late, inputs=['.'], output='.', r=True)                       # all of them in place
    add(late, inputs=['.'], output='out/', r=True, s=True)
    add(late, inputs=['.'], output='out/', r=True, v=True)
    for p in ('h.html', 'u.html', 'j.json', 'm.json', 'b.js'):
        add({p: late[p]}, inputs=[p], output=p)                       # failing file onto itself
        add({p: late[p]}, inputs=[p], output='o.' + p.split('.')[1])
        add({p: late[p]}, inputs=[p])                                 # to stdout
    # a bundle with a failing input (first, middle, last): the destination holds the ORIGINAL bytes of the whole bundle,
    # also when the bundle is written onto one of its own sources (backup restored or removed: never one input's bytes alone)
    for bad in (0, 1, 2):
        fs = {'a.js': 'var a = 1', 'm.js': 'var m = 2 //c', 'z.js': '(function(){z()})()'}
        fs[sorted(fs)[bad]] = JS_BAD[1]
        for dest in ('a.js', 'm.js', 'z.js', 'o.js', None):
            if q and dest not in ('a.js', 'z.js', 'o.js') and bad != 1:
                continue
            kw = dict(inputs=['a.js', 'm.js', 'z.js'], b=True)
            if dest:
                kw['output'] = dest
            add(fs, **kw)
    add({'c1.css': 'a { color : red }', 'c2.css': CSS_OK[1], 'j.json': JSON_BAD[0]}, inputs=['c1.css', 'j.json', 'c2.css'], output='c1.css', b=True, type='json')
    out.append(dict(tree=[], inv=inv(stdin=True, type='js'), stdin=s2b(JS_BAD[1])))
    out.append(dict(tree=[], inv=inv(stdin=True, type='json', output='o.json'), stdin=s2b(JSON_BAD[0])))
    out.append(dict(tree=[], inv=inv(stdin=True, type='text/html'), stdin=s2b(HTML_OK[1])))
    # every documented type, nested, in place and mirrored; hard-linked sibling of an in-place file must keep the old bytes
    allt = {'w/i.html': HTML_OK[1], 'w/s.css': CSS_OK[1], 'w/a.js': JS_OK[1], 'w/d.json': JSON_OK[0], 'w/p.svg': SVG_OK[0],
            'w/f.xml': XML_OK[0], 'w/x.xhtml': '<html xmlns="http://www.w3.org/1999/xhtml"> <body> <p> hi </p> </body> </html>\n', 'w/m.mjs': JS_OK[2], 'w/t.htm': HTML_OK[0], 'w/sub/deep/z.js': JS_OK[5], 'w/readme.md': '# x  y\n',
            'w/.hid.js': 'var h = 1 ;', 'keep.js': ('h', 'w/a.js')}
    add(allt, inputs=['w/'], output='w/', r=True)
    add(allt, inputs=['w'], output='out/', r=True)
    add(allt, inputs=['w/'], output='out/', r=True, s=True, a=True)
    add(allt, inputs=['w'], output='.', r=True, a=True)
    add(allt, inputs=['w/'], output='out/', r=True, match=['*.js', '*.mjs'])
    add(allt, inputs=['w/'], output='out/', r=True, filters=[dict(inc=False, pat=s2b('w/sub/**'))])
    add(allt, inputs=['w/'], output='out/', r=True, filters=[dict(inc=False, pat=s2b('**')), dict(inc=True, pat=s2b('w/sub/**'))])
    add(allt, inputs=['w/i.html', 'w/s.css', 'w/p.svg', 'w/f.xml', 'w/d.json'], output='flat/')
    # large and empty files; large output on stdout
    big = ''.join('var v%d = %d ;\n' % (i, i) for i in range(6000))
    add({'big.js': big, 'e.js': '', 'e.css': ''}, inputs=['big.js', 'e.js', 'e.css'], output='out/')
    add({'big.js': big}, inputs=['big.js'], output='big.js')
    add({'big.js': big}, inputs=['big.js'])
    add({'e.js': ''}, inputs=['e.js'], output='e.js')
    # existing destination is overwritten; output directory already exists with unrelated content
    add({'a.js': 'var a = 1 ;', 'out.js': 'OLD CONTENT THAT IS LONGER THAN THE NEW ONE ...............\n'}, inputs=['a.js'], output='out.js')
    add({'a.js': 'var a = 1 ;', 'out/z.txt': 'keep me', 'out/a.js': 'old'}, inputs=['a.js'], output='out/')
    # real-world documents of the repository's benchmark corpus: mirrored, in place, bundled
    bench = os.path.join(vlib.REPO, '_benchmarks')
    names = ['sample_blogpost.html', 'sample_normalize.css', 'sample_dot.js', 'sample_books.xml', 'sample_gopher.svg',
             'sample_twitter.json', 'sample_catalog.xml'] + ([] if q else ['sample_fontawesome.css', 'sample_tiger.svg', 'sample_bbc.html'])
    real = {}
    for n in names:
        fp = os.path.join(bench, n)
        if os.path.exists(fp):
            real['site/' + n.replace('sample_', '')] = open(fp, 'rb').read()
    if real:
        add(real, inputs=['site'], output='public/', r=True)
        add(real, inputs=['site/'], output='site/', r=True)
        css = sorted(k for k in real if k.endswith('.css'))
        if len(css) >= 1:
            add(real, inputs=css + ['site/normalize.css'], output='all.css', b=True)
    # symbolic links: followed by default, recreated with -p links in sync mode; link to a directory
    lk = {'real/a.js': 'var a = 1 ;', 'real/n.txt': 'n  n', 'src/l.js': ('l', '../real/a.js'), 'src/m.js': 'var m = 2 ;',
          'src/dl': ('l', '../real')}
    add(lk, inputs=['src/'], output='out/', r=True)
    add(lk, inputs=['src/'], output='out/', r=True, s=True)
    add(lk, inputs=['src/'], output='out/', r=True, s=True, preserve=['links'])
    add(lk, inputs=['src/'], output='out/', r=True, s=True, preserve=['all'])
    add(lk, inputs=['src/l.js'], output='o.js')
    return [s for s in out if s is not None]


# ---- TLC plumbing ---------------------------------------------------------------------------------
def parse_plans(out):
    res = []
    for line in out.splitlines():
        if line.startswith('<<"PLAN", "') and line.endswith('">>'):
            js = json.loads(line[len('<<"PLAN", '):-2])
            res.append(json.loads(js))
    return res


def plan_render(ctx, reqs, tag):
    """TLC evaluates Plan for every request; returns {id: rendered}"""
    from concurrent.futures import ThreadPoolExecutor
    n = len(reqs)
    shards = max(1, min(vlib.JOBS, n // 60 + 1))
    files = []
    for s in range(shards):
        p = ctx.path('plan', '%s-%d.ndjson' % (tag, s))
        vlib.write_ndjson(p, reqs[s::shards])
        files.append(p)

    def one(s):
        r = vlib.tlc(ctx, 'C19Plan', 'C19Plan.cfg', workers=1, heap='2g', timeout=1500, env={'TRACE': files[s]})
        if r['invariant_violations'] or r['errors'] or not r['completed'] or r['distinct'] != len(reqs[s::shards]) + 1:
            raise vlib.Infra('plan rendering failed:\n' + r['out'][-3000:])
        return parse_plans(r['out'])

    with ThreadPoolExecutor(max_workers=shards) as ex:
        parts = list(ex.map(one, range(shards)))
    byid = {}
    for part in parts:
        for p in part:
            byid[p['id']] = p
    if len(byid) != n:
        raise vlib.Infra('plan rendering returned %d of %d scenarios' % (len(byid), n))
    return byid


def complete(sc, plan, rnd):
    """fill contents, argument vector and library requests of a rendered scenario"""
    fill_contents(sc, rnd)
    sc['argv'] = render_argv(sc['inv'])
    sc['libreq'] = [dict(type=t['type'], srcs=t['srcs'], sep=t['sep']) for t in plan['tasks'] if t['mode'] == 'min']
    for e in sc['tree']:
        e.pop('fixed', None)
    return sc


def ident(sc):
    return dict(argv=sc['argv'], stdin=b2s(sc.get('stdin') or []),
                tree=[[b2s(e['p']), e['k'], b2s(e['c']) if e['k'] == 'f' else b2s(e['t'])] for e in sc['tree']])


def describe(sc, rec=None):
    s = 'minify %s  in tree {%s}' % (' '.join(sc['argv']), ', '.join(
        b2s(e['p']) + ('->' + b2s(e['t']) if e['k'] in 'lh' else '/' if e['k'] == 'd' else '') for e in sc['tree']))
    if rec:
        s += '  => exit %d, final {%s}' % (rec['obs']['exit'], ', '.join(b2s(e['p']) for e in rec['obs']['final'] if e['k'] != 'd'))
    return s


def run_real(ctx, exe, cli, scs, tag):
    cin = ctx.path('run', tag + '-scenarios.ndjson')
    tout = ctx.path('run', tag + '-trace.ndjson')
    work = ctx.path('work', tag, 'x')
    vlib.write_ndjson(cin, scs)
    vlib.run([exe, 'run', cli, cin, tout, os.path.dirname(work), str(min(8, vlib.JOBS))], timeout=3000)
    lines = [l.rstrip('\n') for l in open(tout)]
    if len(lines) != len(scs):
        raise vlib.Infra('harness wrote %d records for %d scenarios' % (len(lines), len(scs)))
    return lines


def validate(ctx, lines):
    acc, rej = vlib.tlc_trace(ctx, 'C19Trace', 'C19Trace.cfg', lines, min_per_shard=40, timeout=2400)
    for i, why in rej:
        if why.startswith('BINDING'):
            raise vlib.Infra('binding problem on line %d: %s\n%s' % (i, why, lines[i][:600]))
    return acc, rej


def prepare(ctx, reqs, tag):
    """requests -> complete runnable scenarios (those the documentation determines)"""
    for i, r in enumerate(reqs):
        r['id'] = i
    plans = plan_render(ctx, reqs, tag)
    scs, dropped = [], []
    for i in range(len(reqs)):
        p = plans[i]
        if p['unspec'] or p['hazard']:
            dropped.append((reqs[i], p))
            continue
        sc = p['sc']
        if 'sc' in reqs[i]:
            sc = reqs[i]['sc']          # keep driver-side fields (stdin, fixed contents)
        sc['id'] = len(scs)
        sc['origin'] = 'gen' if 'gen' in reqs[i] else 'driver'
        sc['known'] = p['known']
        scs.append(complete(sc, p, ctx.rnd))
    return scs, dropped


def tick(ctx, what):
    import time
    vlib.log('[%s %6.1fs] %s' % (ctx.pid, time.time() - ctx.t0, what))


def run(ctx):
    exe = vlib.build_harness(ctx, 'c19')
    cli = vlib.build_cli(ctx)
    quick = ctx.quick()
    tick(ctx, 'built')
    r = vlib.tlc_mc(ctx, 'CliPlanGen', 'CliPlanGen_quick.cfg' if quick else 'CliPlanGen_thorough.cfg',
                    workers=min(8, vlib.JOBS), heap='4g', timeout=2400)
    gen = []
    import re
    for m in re.finditer(r'<<"SC", (\d+), <<([\d, ]*)>>, "(\w+)", (\d+)>>', r['out']):
        gen.append((int(m.group(1)), [int(x) for x in m.group(2).split(',')] if m.group(2).strip() else [], m.group(3), int(m.group(4))))
    tick(ctx, 'design check done: %d scenarios, %d determined' % (r['distinct'], len(gen)))
    ctx.coverage['scenarios_determined_by_documentation'] = len(gen)
    ctx.coverage['scenarios_enumerated'] = r['distinct']
    if len(gen) < 1000:
        raise vlib.Infra('generator produced only %d scenarios' % len(gen))
    # per-shape stratified seeded sample; scenarios containing a known-defect construct are left to the pinned witnesses
    byshape = {}
    for k, S, st, nt in sorted(gen):
        if st == 'ok':
            byshape.setdefault(k, []).append((S, nt))
    per = 8 if quick else 400
    reqs = []
    for k in sorted(byshape):
        lst = byshape[k]
        busy = [x for x in lst if x[1] > 0]
        idle = [x for x in lst if x[1] == 0]
        pick = vlib.sample(busy, per, ctx.rnd) + vlib.sample(idle, 1 if quick else 5, ctx.rnd)
        for S, nt in pick:
            reqs.append(dict(gen=dict(k=k, S=S)))
    ngen = len(reqs)
    for sc in extra_scenarios(ctx):
        reqs.append(dict(sc=sc))
    # pinned witnesses of known findings are rendered in the same TLC run
    pinned = vlib.known_cases(PID)
    npin = len(pinned)
    for c in pinned:
        reqs.append(dict(sc=dict(tree=tree_from_ident(c['tree']), inv=c['inv'], stdin=s2b(c.get('stdin', ''))), pinned=True))
    scs, dropped = prepare(ctx, reqs, 'main')
    for rq, p in dropped:
        if rq.get('pinned'):
            raise vlib.Infra('pinned witness not runnable: %s %s' % (p['unspec'], p['hazard']))
        if 'sc' in rq:
            raise vlib.Infra('driver-built scenario is not determined by the documentation: %s %s' % (p['unspec'], p['hazard']))
    pscs = scs[len(scs) - npin:] if npin else []
    scs = [s for s in scs[:len(scs) - npin] if not s['known']]
    allscs = scs + pscs
    for i, s in enumerate(allscs):
        s['id'] = i
    tick(ctx, 'plans rendered: %d scenarios to run' % len(allscs))
    lines = run_real(ctx, exe, cli, allscs, 'main')
    tick(ctx, 'real binary ran')
    accepted, rejects = validate(ctx, lines)
    tick(ctx, 'validated: %d accepted, %d rejected' % (accepted, len(set(i for i, _ in rejects))))
    why = {}
    for i, w in rejects:
        why.setdefault(i, []).append(w)
    bad = sorted(why)
    reproduced = 0
    if bad:
        sub = [dict(allscs[i], id=k) for k, i in enumerate(bad[:300])]
        lines2 = run_real(ctx, exe, cli, sub, 'rerun')
        acc2, rej2 = validate(ctx, lines2)
        why2 = {}
        for k, w in rej2:
            why2.setdefault(k, []).append(w)
        for k in sorted(why2):
            sc = allscs[bad[k]]
            rec = json.loads(lines2[k])
            reproduced += 1
            ctx.report(ident(sc), describe(sc, rec) + '  REJECTED: ' + '; '.join(why2[k]),
                       replay_obj=dict(scenario=sc, obs=dict(exit=rec['obs']['exit'], stderr=rec['obs']['stderr'])))
        unrep = [bad[k] for k in range(len(sub)) if k not in why2]
        if unrep:
            raise vlib.Infra('%d rejection(s) did not reproduce in isolation, e.g. %s: %s' % (
                len(unrep), describe(allscs[unrep[0]]), why[unrep[0]]))
    # coverage
    nontrivial = set()
    shapes_run = set()
    fails = inplace = bundles = syncs = 0
    samples = []
    for i, l in enumerate(lines):
        rec = json.loads(l)
        sc = rec['sc']
        libs = rec['obs']['lib']
        changed = any(x['ok'] and x['out'] != x['in'] for x in libs) or any(not x['ok'] for x in libs)
        if changed and i not in why:
            nontrivial.add(vlib.case_key(ident(sc)))
        fails += any(not x['ok'] for x in libs)
        bundles += bool(sc['inv']['b'])
        syncs += bool(sc['inv']['s'])
        shapes_run.add(' '.join(a for a in sc['argv'] if a.startswith('-')))
        if len(samples) < 5 and i % 97 == 0:
            samples.append(describe(sc, rec))
    ctx.coverage.update(dict(
        traces_validated_against_impl=accepted,
        evaluations=len(lines),
        distinct_nontrivial=len(nontrivial),
        rule='a case is (tree with contents, argument vector, stdin); non-trivial = at least one planned file is changed by the '
             'library or fails to minify, and the run was accepted. No construct is excluded: the witnesses of the fixed findings '
             '(known/C19.ndjson) run as ordinary regression scenarios. Scenarios whose outcome the README does not determine '
             '(Plan.unspec/hazard) are never run.',
        samples=samples,
        scenarios_from_generator=sum(1 for x in scs if x['origin'] == 'gen'),
        scenarios_from_driver=sum(1 for x in scs if x['origin'] == 'driver'),
        pinned_witnesses=len(pscs), runs_with_a_failing_file=fails, bundle_runs=bundles, sync_runs=syncs,
        distinct_flag_combinations=len(shapes_run), rejections=len(bad), rejections_reproduced=reproduced,
    ))
    ctx.assumptions += [
        'Plan (spec/CliPlan.tla) is transcribed from cmd/minify/README.md and the property text, not from the code; scenarios it does not determine are not run',
        'the library side is minify.M set up as the library README documents (default options), called through the public API',
        'file modes, ownership and timestamps are not part of the property statement and are not judged',
        'TLC enumerates trees of <= %d entries from a universe of 19 entries x 72 invocation shapes; the real binary runs a seeded per-shape sample' % (2 if quick else 4),
    ]


def tree_from_ident(t):
    ents = []
    for p, k, x in t:
        ents.append(dict(p=s2b(p), k=k, c=s2b(x) if k == 'f' else [], t=s2b(x) if k in 'lh' else [], fixed=True))
    return ents


def replay(ctx, obj):
    exe = vlib.build_harness(ctx, 'c19')
    cli = vlib.build_cli(ctx)
    sc = obj['detail']['scenario'] if obj.get('detail') and 'scenario' in obj['detail'] else None
    if sc is None:
        raise vlib.Infra('replay file has no scenario')
    sc = dict(sc, id=0)
    lines = run_real(ctx, exe, cli, [sc], 'replay')
    acc, rej = validate(ctx, lines)
    rec = json.loads(lines[0])
    print(describe(sc, rec))
    print('stderr:', rec['obs']['stderr'])
    for _, w in rej:
        print('REJECTED:', w)
    if rej:
        print('VIOLATION property=%s replay=%s' % (PID, 'given'))
        return 1
    print('accepted')
    return 0


META = dict(
    category='model_checking',
    text='Plan(tree, argv) - the documented semantics of the command (output file / directory mirror / stdout, trailing '
         'slashes, -r, -a, --match, --include/--exclude order, --type/--mime/--ext, -b with the ";\\n" separator, -s, -p links, '
         'in-place) - is a TLA+ operator. TLC evaluates it on every tree of a 19-entry universe (<=2/<=4 entries) x 72 '
         'invocation shapes, checks design claims (mirror shape, each source once, sync covers all, fresh output is safe) '
         'and hands the determined scenarios to the real binary; the recorded final file tree, exit status and stdout '
         'are validated by TLC against Plan and the library\'s own output: every destination holds exactly the library '
         'bytes (original bytes if the library fails), sync copies are verbatim, nothing else changes or appears, '
         'failing files give a non-zero exit.',
    design_ref='DESIGN.md section 4, C19',
    note='Trusted: TLC, spec/CliPlan.tla as the reading of the README, the harness snapshot (os.ReadFile/Lstat). '
         'Modes/ownership/timestamps are not judged. Regex patterns (~), ? globs, --watch and minifier option flags are outside the universe.',
    technique='TLA+ plan function + exhaustive scenario enumeration (TLC) + trace validation of the final file system of the real binary',
)
