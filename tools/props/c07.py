"""C07  JSON minification preserves the value.

MC : JsonDocMC  the push-down recogniser that judges executions == recursive descent over the RFC 8259
                productions, on every kind sequence up to the bound; lexical table
     JsonSep    design model of the separator logic (parser state stack x needComma x skipComma), one action per
                branch of Parser.Next: D => A for every valid text up to the bound, per-action coverage; error
                branches with unconstrained inputs; its functional form JsonSepFn.DRun == the action system
     JsonNumFix design model of the number branch (leading-zero repair of Number's result) over the generator
                automaton of the number grammar (NumGen, shared with C08); its dump gives the number lexemes
     JsonGen    generator automaton of valid texts over a lexeme table (duplicate keys, -0, 1E+2, 0.50,
                "\"", 1e-3 ...) with the sanity invariants of the value relation; its dump is the input set;
                -simulate walks (biased variant) far beyond the bound
GEN: the above rendered with whitespace variants and option/API variants, number lexemes embedded in
     contexts, exponents at the int32/int64 borders, string pool with every escape, nesting to depth 8000,
     json_test.go inputs, tests/json/corpus, _benchmarks/*.json (whole, windowed; and cut into sub-values)
RUN: harness/cmd/c07 calls the real json.Minify / Minifier.Minify / M.Minify / M.Bytes
TV : C07Trace evaluates ValidText / JsonEq / the length clause (spec/JsonDoc.tla) on every recorded call, and
     compares the design model's prediction with the tokens the code wrote (drift = information only).
"""
import json
import os
import re
import threading
import time

import vlib

WINDOW = 256
JSON_NUM = re.compile(rb'-?(0|[1-9][0-9]*)(\.[0-9]+)?([eE][+-]?[0-9]+)?\Z')
COMBOS_NOKEEP = [('method', 'buf'), ('func', 'rdr'), ('reg', 'buf'), ('method', 'rdr'), ('bytes', 'buf'),
                 ('func', 'buf'), ('reg', 'rdr')]
COMBOS_KEEP = [('method', 'buf'), ('reg', 'rdr'), ('bytes', 'buf'), ('method', 'rdr'), ('reg', 'buf')]
WS = [b' ', b'\n', b'\t', b'\r', b'  ', b'\r\n', b' \t\n ']


# ---------------------------------------------------------------- MC stage
def _mc_parallel(ctx, jobs):
    """jobs: list of (name, module, cfg, kwargs); run side by side (start staggered), all must pass."""
    res = {}
    err = []

    def one(j):
        name, module, cfg, kw = j
        try:
            res[name] = vlib.tlc(ctx, module, cfg, **kw)
        except Exception as e:  # noqa: BLE001
            err.append((name, e))

    th = []
    for j in jobs:
        t = threading.Thread(target=one, args=(j,))
        t.start()
        th.append(t)
        time.sleep(0.25)
    for t in th:
        t.join()
    if err:
        raise vlib.Infra('model checking failed to run: %r' % (err,))
    for name, module, cfg, kw in jobs:
        r = res[name]
        if os.environ.get('VERIF_DEBUG'):
            vlib.log('  mc %-7s %6.1fs %d states' % (name, r['wall'], r['distinct']))
        if kw.get('simulate'):
            if r['errors'] or r['invariant_violations']:
                raise vlib.Infra('simulation of %s failed:\n%s' % (module, r['out'][-2000:]))
            continue
        if r['invariant_violations'] or r['errors'] or not r['completed']:
            raise vlib.Infra('design-level model checking of %s/%s did not pass:\n%s' % (module, cfg, r['out'][-3000:]))
        ctx.add_mc(r)
    return res


def action_coverage(out):
    cov = {}
    for m in re.finditer(r'^<(\w+) line \d+, col \d+ to line \d+, col \d+ of module JsonSep>: (\d+):(\d+)', out, re.M):
        cov[m.group(1)] = int(m.group(3))
    return cov


def model_check(ctx):
    q = ctx.quick()
    t = 'quick' if q else 'thorough'
    w = max(2, min(8, vlib.JOBS // 2))
    gdump = ctx.path('gen', 'jsongen')
    ndump = ctx.path('gen', 'numgen')
    simdir = os.path.dirname(ctx.path('sim', 'x'))
    gsimdir = os.path.dirname(ctx.path('gsim', 'x'))
    jobs = [
        ('gen', 'JsonGen', 'JsonGen_%s.cfg' % t, dict(workers=w, heap='3g', dump=gdump, timeout=1500)),
        ('doc', 'JsonDocMC', 'JsonDocMC_%s.cfg' % t, dict(workers=max(2, w // 2), timeout=1500)),
        ('sep', 'JsonSep', 'JsonSep_%s.cfg' % t, dict(workers=2, timeout=900, extra=['-coverage', '1'])),
        ('sepany', 'JsonSep', 'JsonSep_anyquick.cfg' if q else 'JsonSep_any.cfg', dict(workers=2, timeout=900, extra=['-coverage', '1'])),
        ('fix', 'JsonNumFix', 'JsonNumFix_%s.cfg' % t, dict(workers=w, heap='3g', dump=ndump, timeout=1500)),
        ('gsim', 'JsonGen', 'JsonGen_sim.cfg', dict(workers=1, simulate='file=%s/b,num=%d' % (gsimdir, 150 if q else 1500),
                                                    depth=150, seed=ctx.seed, timeout=600)),
        ('sim', 'NumGen', 'NumGen_sim.cfg', dict(workers=1, simulate='file=%s/b,num=%d' % (simdir, 150 if q else 1500),
                                                 depth=40, seed=ctx.seed, timeout=600)),
    ]
    res = _mc_parallel(ctx, jobs)
    cov = action_coverage(res['sep']['out'])
    covany = action_coverage(res['sepany']['out'])
    ctx.coverage['design_model_action_coverage_valid_inputs'] = cov
    ctx.coverage['design_model_action_coverage_any_input'] = covany
    dead = [a for a, n in covany.items() if n == 0]
    if dead or not covany:
        raise vlib.Infra('JsonSep: actions never taken with unconstrained inputs (vacuous design model): %s' % dead)
    reach = [a for a, n in cov.items() if a.startswith('Err') and n > 0]
    if reach:
        raise vlib.Infra('JsonSep: error branch reachable on a valid text: %s' % reach)
    ctx.coverage['mc_states'] = {k: res[k]['distinct'] for k in res if k not in ('sim', 'gsim')}
    # lexeme table of the generator (single source: the spec)
    lex = {}
    for m in re.finditer(r'<<"LEX", (\d+), (<<[^>]*>>)>>', res['gen']['out']):
        lex[int(m.group(1))] = bytes(vlib.tla_seq_to_list(m.group(2)))
    if len(lex) < 20:
        raise vlib.Infra('lexeme table of JsonGen not found in TLC output')
    return lex, gdump + '.dump', ndump + '.dump', simdir, gsimdir


def texts_from_dump(path, lex):
    """token-id sequences of the complete states of JsonGen"""
    out = []
    toks = None
    for line in open(path):
        if line.startswith('/\\ toks = '):
            toks = line[len('/\\ toks = '):].strip()
        elif line.startswith('/\\ p = ') and 'ph |-> "done"' in line and toks is not None:
            out.append([lex[i] for i in vlib.tla_seq_to_list(toks)])
            toks = None
    return out


def jsonify(b):
    """map a lexeme of the (wider) NumVal grammar onto the JSON number grammar, deterministically"""
    b = bytes(b)
    if b[:1] == b'+':
        b = b[1:]
    m = re.match(rb'(-?)([0-9]*)(\.?)([0-9]*)(.*)\Z', b, re.S)
    sign, ip, dot, fp, rest = m.groups()
    ip = ip.lstrip(b'0') or b'0'
    if dot and not fp:
        fp = b'0'
    r = sign + ip + (b'.' + fp if dot else b'') + rest
    return r if JSON_NUM.match(r) else None


def number_lexemes(ctx, ndump, simdir):
    exh, sim = set(), set()
    srclen = {}
    for line in open(ndump):
        if line.startswith('/\\ lex = '):
            cur = vlib.tla_seq_to_list(line[len('/\\ lex = '):])
        elif line.startswith('/\\ st = '):
            if int(line[len('/\\ st = '):]) in (2, 3, 4, 8):
                j = jsonify(cur)
                if j:
                    exh.add(j)
                    srclen[j] = min(srclen.get(j, 99), len(cur))
    for fn in sorted(os.listdir(simdir)):
        txt = open(os.path.join(simdir, fn)).read()
        for l, s in zip(re.findall(r'lex = (<<[^>]*>>)', txt), re.findall(r'st = (-?\d+)', txt)):
            if int(s) in (2, 3, 4, 8):
                j = jsonify(vlib.tla_seq_to_list(l))
                if j:
                    sim.add(j)
    # exponents at the borders of int32 / int64 and just beyond, with mantissas that shift the exponent
    border = set()
    exps = []
    for base in (2 ** 31, 2 ** 63, 2 ** 15, 10 ** 9, 10 ** 19):
        for d in (-2, -1, 0, 1, 2, 30):
            exps += [base + d, -(base + d)]
    mants = [b'1', b'1.5', b'15', b'0.15', b'0.00015', b'150', b'1.50', b'-1', b'-0.5', b'123456789.123456789', b'0',
             b'0.0', b'-0.0', b'1000000000000000000000', b'0.' + b'0' * 22 + b'1', b'9.99999', b'10.01']
    for e in exps:
        for mnt in mants:
            border.add(mnt + ctx.rnd.choice([b'e', b'E']) + str(e).encode())
            if e > 0:
                border.add(mnt + b'e+' + str(e).encode())
    small = [mnt + b'e' + str(e).encode() for mnt in mants for e in range(-12, 13)]
    border.update(x for x in small if JSON_NUM.match(x))
    assert all(JSON_NUM.match(x) for x in border)
    # the case analysis of minify.Number (4 print cases x dot position x exponent sign): significant digits x
    # position of the dot (leading zeros after it / trailing zeros before it) x exponent x sign
    grid = set()
    digs = b'1234567891234567'
    exps = [None, 0] + [sg * v for v in (1, 2, 3, 4, 5, 6, 9, 10, 11, 15, 99, 100) for sg in (1, -1)]
    for n in (1, 2, 3, 4, 5, 6, 8, 10, 12, 15):
        d = digs[:n]
        mant = [b'0.' + b'0' * k + d for k in (0, 1, 2, 3, 5)] + [d + b'0' * z for z in (0, 1, 2, 3, 5)]
        mant += [d[:p] + b'.' + d[p:] for p in range(1, n)] + [d + b'.0', d + b'.' + d[::-1] + b'00']
        for mnt in mant:
            for e in exps:
                es = b'' if e is None else ctx.rnd.choice([b'e', b'E', b'e+' if e >= 0 else b'e']) + str(e).encode()
                for sign in (b'', b'-'):
                    grid.add(sign + mnt + es)
    assert all(JSON_NUM.match(x) for x in grid)
    grid -= border
    return sorted(exh), sorted(sim), sorted(border), srclen, sorted(grid)


def render(toks, mode, rnd):
    if mode == 0:
        return b''.join(toks)
    if mode == 1:
        return b' '.join(toks)
    if mode == 2:
        return b' \n' + b''.join(toks) + b'\t\r\n'
    parts = []
    for t in toks:
        if rnd.random() < 0.5:
            parts.append(rnd.choice(WS))
        parts.append(t)
    if rnd.random() < 0.5:
        parts.append(rnd.choice(WS))
    return b''.join(parts)


def contexts(n, n2, k):
    k %= 12
    if k == 0:
        return n
    if k == 1:
        return b'[' + n + b']'
    if k == 2:
        return b'[' + n + b',' + n2 + b']'
    if k == 3:
        return b'{"k":' + n + b'}'
    if k == 4:
        return b'[' + n2 + b',' + n + b']'
    if k == 5:
        return b'{"a":' + n + b',"b":' + n2 + b'}'
    if k == 6:
        return b'[[' + n + b'],{"x":' + n + b'}]'
    if k == 7:
        return b' ' + n + b' '
    if k == 8:
        return b'[' + n + b' ,' + n2 + b' ]'
    if k == 9:
        return n + b'\n'
    if k == 10:
        return b'{"' + n + b'":' + n + b',"' + n + b'":"' + n2 + b'"}'     # number-looking keys and strings stay strings
    return b'[' + n + b',"s",' + n2 + b',true,' + n + b']'


class Gen:
    """builds the case list; identity of a case = (keep, api, rd, text | file slice)"""

    def __init__(self, ctx):
        self.ctx = ctx
        self.cases = []
        self.seen = set()
        self.k = ctx.seed * 7919
        self.n = 0

    def add(self, text, keep, src, combo=None, force=False):
        key = hash((keep, text))
        if key in self.seen and not force:
            return
        self.seen.add(key)
        combos = COMBOS_KEEP if keep else COMBOS_NOKEEP
        self.k += 1
        self.n += 1
        api, rd = combo or combos[self.k % len(combos)]
        self.cases.append(dict(keep=keep, api=api, rd=rd, text=text, src=src))

    def add_file(self, path, off, ln, keep, src):
        self.k += 1
        self.n += 1
        combos = COMBOS_KEEP if keep else COMBOS_NOKEEP
        api, rd = combos[self.k % len(combos)]
        self.cases.append(dict(keep=keep, api=api, rd=rd, file=path, off=off, len=ln, src=src))

    def take(self):
        c, self.cases = self.cases, []
        return c


def string_pool(rnd):
    """JSON string lexemes exercising every escape of RFC 8259 section 7, backslash runs before the closing
    quote (the parser decides `escaped` by counting them), raw UTF-8 and DEL"""
    atoms = [b'a', b'Z', b' ', b'0', b'-1', b'{', b'}', b'[', b']', b':', b',', b'/', b'\\"', b'\\\\', b'\\/', b'\\b', b'\\f',
             b'\\n', b'\\r', b'\\t', b'\\u0000', b'\\u001f', b'\\u0041', b'\\u00e9', b'\\uD83D\\uDE00', b'\\udead', b'\\uABCD',
             '\u00e9'.encode(), '\u20ac'.encode(), '\U0001F600'.encode(), b'\x7f', b"'", b'true', b'null', b'.5', b'1e5',
             b'\\\\\\\\', b'\\\\\\"', b'</script>', b'&amp;', b'\\u005C', b'\\u0022']
    pool = [b'""', b'"\\\\"', b'"\\""', b'"\\\\\\""', b'"\\\\\\\\"', b'"a\\\\"', b'"\\"\\\\"', b'" "', b'"\\u0000"']
    for _ in range(120):
        pool.append(b'"' + b''.join(rnd.choice(atoms) for _ in range(rnd.randint(1, 9))) + b'"')
    pool.append(b'"' + b'x' * 300 + b'\\\\"')
    pool.append(b'"' + b'\\\\' * 64 + b'"')
    return pool


def complete(ids, stk, ph, lex):
    """a valid text from a viable prefix of JsonGen: fill the pending value, then close what p.stk holds open"""
    toks = [lex[i] for i in ids]
    if ph == 'colon':
        toks += [b':', b'0.50']
    elif ph == 'val':
        toks += [b'-0']
    elif ph == 'key':
        toks += [b'"a"', b':', b'1E+2']
    toks += [b'}' if x == 1 else b']' for x in reversed(stk)]
    return toks


def sim_texts(gsimdir, lex, rnd, per_walk):
    out = []
    for fn in sorted(os.listdir(gsimdir)):
        txt = open(os.path.join(gsimdir, fn)).read()
        sts = re.findall(r'toks = (<<[^>]*>>)\n/\\ p = \[stk \|-> (<<[^>]*>>), ph \|-> "(\w+)"\]', txt)
        sts = [x for x in sts if x[2] not in ('bad',) and x[0] != '<<>>']
        if not sts:
            continue
        pick = [sts[-1]] + [rnd.choice(sts) for _ in range(per_walk - 1)]
        for t, k, ph in pick:
            out.append(complete(vlib.tla_seq_to_list(t), vlib.tla_seq_to_list(k), ph, lex))
    return out


def gen_cases(ctx, exe, lex, gdump, ndump, simdir, gsimdir, B):
    """yields batches (lists) of cases"""
    q = ctx.quick()
    rnd = ctx.rnd
    g = Gen(ctx)
    texts = texts_from_dump(gdump, lex)
    ctx.coverage['texts_enumerated'] = len(texts)
    for i, toks in enumerate(texts):
        m1 = (i + ctx.seed) % 4
        if q:
            # quick: TLC enumerates (and checks the design invariants on) all texts up to 6 grammar tokens; the
            # real code runs every text up to 5 tokens and a seeded third of the 6-token ones, option and
            # whitespace variant rotating with index and seed; the smallest in both settings
            ngram = sum(1 for t in toks if t not in (b',', b':'))
            if ngram >= 6 and rnd.random() >= 1 / 3:
                continue
            keep = bool((i // 4 + ctx.seed) % 2)
            g.add(render(toks, m1, rnd), keep, 'gen')
            if ngram <= 4:
                g.add(render(toks, 0, rnd), False, 'gen')
                g.add(render(toks, 3, rnd), True, 'gen')
        else:
            # thorough: every enumerated text (<= 7 grammar tokens); option and whitespace variant rotate with
            # index and seed for the 7-token ones, all four combinations for the smaller ones
            ngram = sum(1 for t in toks if t not in (b',', b':'))
            if ngram >= 7:
                g.add(render(toks, m1, rnd), bool((i // 4 + ctx.seed) % 2), 'gen')
            else:
                g.add(render(toks, m1, rnd), False, 'gen')
                g.add(render(toks, (m1 + 1 + (i // 4) % 3) % 4, rnd), True, 'gen')
                g.add(render(toks, 0, rnd), False, 'gen')
                g.add(render(toks, 3, rnd), True, 'gen')
        if len(g.cases) >= B:
            yield g.take()
    del texts
    exh, sim, border, srclen, grid = number_lexemes(ctx, ndump, simdir)
    ctx.coverage['number_lexemes'] = dict(exhaustive=len(exh), simulated=len(sim), border=len(border), case_grid=len(grid))
    allnum = exh + sim + border + grid
    gridset = set(grid)
    borderset = set(border)
    top = max(srclen.values())
    for i, n in enumerate(allnum):
        longest = i < len(exh) and srclen[n] >= top
        if longest and rnd.random() >= (1 / 6 if q else 1 / 2):
            continue        # all lexemes below the top NumGen length (quick 6, thorough 7), a seeded part of the top length
        if q and n in gridset and rnd.random() >= 1 / 2:
            continue        # quick: a seeded half of the case grid
        n2 = allnum[(i * 7 + 3 + ctx.seed) % len(allnum)]
        k = i + ctx.seed
        g.add(contexts(n, n2, k), False, 'num')
        # more contexts / number keeping / upper-case E: always for the border lexemes, in thorough also for the
        # exhaustively enumerated ones below the top length, else for a rotating eighth (quick) or quarter (thorough)
        more = n in borderset or (not q and i < len(exh) and not longest) or i % (8 if q else 4) == ctx.seed % 4
        if more:
            g.add(contexts(n, n2, k + 5), False, 'num')
            g.add(contexts(n, n2, k + 1), True, 'num')
        if b'e' in n and (i % 16 == 0 or (not q and more)):
            g.add(contexts(n.replace(b'e', b'E'), n2, k + 2), False, 'num')
        if len(g.cases) >= B:
            yield g.take()
    # packed arrays: neighbours of an in-place rewritten lexeme
    for j in range(200 if q else 3000):
        xs = [rnd.choice(allnum) for _ in range(rnd.randint(3, 24))]
        sep = rnd.choice([b',', b', ', b' ,', b',\n\t'])
        t = b'[' + sep.join(xs) + b']'
        g.add(t, False, 'numpack')
        if j % 4 == 0:
            g.add(t, True, 'numpack')
    # random walks of the generator automaton far beyond the exhaustive bound, completed to valid texts;
    # strings and numbers replaced from the pools (any string escapes, long mantissas, huge exponents)
    pool = string_pool(rnd)
    walks = sim_texts(gsimdir, lex, rnd, 3 if q else 6)
    ctx.coverage['simulated_texts'] = len(walks)
    for j, toks in enumerate(walks):
        for variant in range(2):
            ts = []
            for t in toks:
                if t[:1] == b'"' and rnd.random() < 0.7:
                    t = rnd.choice(pool)
                elif JSON_NUM.match(t) and rnd.random() < 0.7:
                    t = rnd.choice(allnum)
                ts.append(t)
            g.add(render(ts, (j + variant) % 4, rnd), bool((j + variant) % 2), 'sim')
    # any nesting depth
    for d in ([40, 300, 2000] if q else [40, 300, 2000, 8000]):
        for keep in (False, True):
            g.add(b'[' * d + b'1.0' + b']' * d, keep, 'deep')
            g.add(b'{"a":' * d + b'[1E+2,{}]' + b'}' * d, keep, 'deep')
            g.add((b'[{"k" : ' * (d // 2)) + b'-0.50' + (b' } ,0.0]' * (d // 2)), keep, 'deep')
    # the repository's own inputs
    rows = vlib.test_inputs(ctx, 'json')
    nrows = 0
    for r in rows:
        if r['file'] == 'json_test.go' and r['strings']:
            s = r['strings'][0].encode('utf-8', 'surrogatepass')
            nrows += 1
            for keep in (False, True):
                for combo in (COMBOS_KEEP if keep else COMBOS_NOKEEP):
                    g.add(s, keep, 'test', combo, force=True)
    ctx.coverage['repo_test_inputs'] = nrows
    files = []
    d = os.path.join(vlib.REPO, 'tests/json/corpus')
    if os.path.isdir(d):
        files += [os.path.join(d, f) for f in sorted(os.listdir(d))]
    d = os.path.join(vlib.REPO, '_benchmarks')
    if os.path.isdir(d):
        files += [os.path.join(d, f) for f in sorted(os.listdir(d)) if f.endswith('.json')]
    nsub = 0
    for f in files:
        size = os.path.getsize(f)
        if size <= 20000 or not q:
            for keep in (False, True):
                g.add_file(f, 0, 0, keep, 'corpus')
        r = vlib.run([exe, 'spans', f, '1500'], timeout=300)
        sp = [json.loads(l) for l in r.stdout.splitlines() if l.strip()]
        sp = [x for x in sp if x['len'] >= 2]
        pick = vlib.sample(sp, (150 if q else 4000) if size > 20000 else (40 if q else 400), rnd)
        for x in pick:
            nsub += 1
            g.add_file(f, x['off'], x['len'], bool(nsub % 3 == 0), 'corpus-sub')
    ctx.coverage['corpus_files'] = len(files)
    ctx.coverage['corpus_subvalues'] = nsub
    for d in vlib.known_cases('C07'):
        g.cases.append(case_from_ident(d))
    yield g.take()


GENERATED = ('gen', 'num', 'numpack', 'sim', 'deep')       # sources that must be valid JSON by construction


# ---------------------------------------------------------------- RUN + TV
def wire(c, i):
    d = dict(id=i, keep=c['keep'], api=c['api'], rd=c['rd'])
    if 'file' in c:
        d.update(file=c['file'], off=c['off'], len=c['len'])
    else:
        d['text'] = list(c['text'])
    return d


def ident(c):
    d = dict(keep=c['keep'], api=c['api'], rd=c['rd'])
    if 'file' in c:
        d.update(file=os.path.relpath(c['file'], vlib.REPO), off=c['off'], len=c['len'])
    else:
        d['text'] = c['text'].decode('latin1')
    return d


def case_from_ident(d):
    c = dict(keep=d['keep'], api=d['api'], rd=d['rd'], src='pinned')
    if 'file' in d:
        c.update(file=os.path.join(vlib.REPO, d['file']), off=d['off'], len=d['len'])
    else:
        c['text'] = d['text'].encode('latin1')
    return c


_tag = [0]


def run_harness(ctx, exe, cases):
    _tag[0] += 1
    cin = ctx.path('run', 'cases-%d.ndjson' % _tag[0])
    tout = ctx.path('run', 'trace-%d.ndjson' % _tag[0])
    with open(cin, 'w') as f:
        for i, c in enumerate(cases):
            f.write(json.dumps(wire(c, i), separators=(',', ':')) + '\n')
    vlib.run([exe, 'run', cin, tout, str(WINDOW)], timeout=1800)
    lines = [l.rstrip('\n') for l in open(tout)]
    os.unlink(cin)
    os.unlink(tout)
    return lines


def tlc_docs(ctx, docs):
    """docs: list of (doc_index, [lines]) with more than one line each; the lines of one text stay
    consecutive in one TLC run (the recogniser state is carried from line to line).
    Returns {doc_index: [why,...]} for rejected docs."""
    if not docs:
        return {}
    nsh = max(1, min(vlib.JOBS, len(docs)))
    shards = [[] for _ in range(nsh)]
    load = [0] * nsh
    for d in sorted(docs, key=lambda x: -len(x[1])):
        s = load.index(min(load))
        shards[s].append(d)
        load[s] += len(d[1])
    rej = {}
    lock = threading.Lock()
    errs = []

    def one(s):
        _tag[0] += 1
        p = ctx.path('tv', 'docs-%d-%d.ndjson' % (_tag[0], s))
        owner = []
        with open(p, 'w') as f:
            for di, ls in shards[s]:
                for l in ls:
                    f.write(l + '\n')
                    owner.append(di)
        try:
            r = vlib.tlc(ctx, 'C07Trace', 'C07Trace.cfg', workers=1, heap='3g', timeout=1800, env={'TRACE': p})
        except vlib.Infra as e:
            errs.append(str(e))
            return
        bad = [e for e in r['errors'] if 'REJECT' not in e]
        if r['invariant_violations'] or bad or not r['completed'] or r['distinct'] != len(owner) + 1:
            errs.append('windowed trace validation failed (shard %d, %d of %d lines):\n%s' % (s, r['distinct'] - 1, len(owner), r['out'][-2000:]))
            return
        with lock:
            for (l, why) in r['rejects']:
                rej.setdefault(owner[l - 1], set()).add(why)
        os.unlink(p)

    th = []
    for s in range(nsh):
        t = threading.Thread(target=one, args=(s,))
        t.start()
        th.append(t)
        time.sleep(0.25)
    for t in th:
        t.join()
    if errs:
        raise vlib.Infra(errs[0])
    return {k: sorted(v) for k, v in rej.items()}


class Stats:
    def __init__(self):
        self.lines = 0
        self.docs = 0
        self.in_scope = 0
        self.out_of_scope = 0
        self.accepted_docs = 0
        self.accepted_lines = 0
        self.nontrivial = set()
        self.numchg = 0
        self.longer_nokeep = 0
        self.longer_sample = None
        self.drift = 0
        self.drift_sample = None
        self.err_on_valid = 0
        self.by_src = {}
        self.samples = []


def validate(ctx, exe, cases, st=None):
    """run the cases on the real code and validate the trace; returns {case_index: [why...]} and the
    events (last line of each doc)"""
    lines = run_harness(ctx, exe, cases)
    tick(ctx, 'harness ran %d cases' % len(cases))
    return judge(ctx, cases, lines, st)


def judge(ctx, cases, lines, st=None):
    groups = {}
    order = []
    for l in lines:
        m = re.match(r'\{"id":(\d+),', l)
        i = int(m.group(1))
        if i not in groups:
            groups[i] = []
            order.append(i)
        groups[i].append(l)
    if len(groups) != len(cases):
        raise vlib.Infra('harness wrote traces for %d of %d cases' % (len(groups), len(cases)))
    single = [i for i in order if len(groups[i]) == 1]
    multi = [(i, groups[i]) for i in order if len(groups[i]) > 1]
    rejected = {}
    if single:
        _, rej = vlib.tlc_trace(ctx, 'C07Trace', 'C07Trace.cfg', [groups[i][0] for i in single], min_per_shard=1500, heap='1g')
        for k, why in rej:
            rejected.setdefault(single[k], []).append(why)
    tick(ctx, 'single-line texts validated (%d)' % len(single))
    for di, whys in tlc_docs(ctx, multi).items():
        rejected[di] = whys
    tick(ctx, 'windowed texts validated (%d)' % len(multi))
    # "drift" = the design model JsonSep does not predict what the code wrote: information, never a verdict
    drifted = set(i for i, w in rejected.items() if 'drift' in w)
    rejected = {i: [x for x in w if x != 'drift'] for i, w in rejected.items()}
    rejected = {i: w for i, w in rejected.items() if w}
    if st is not None:
        st.drift += len(drifted)
        if drifted and st.drift_sample is None:
            st.drift_sample = ident(cases[min(drifted)])
    last = {}
    for i in order:
        ll = groups[i][-1]
        e = json.loads(ll[:ll.index(',"it":[')] + '}')       # scalar fields only; the lexeme lists come last
        c = cases[i]
        last[i] = e
        whys = rejected.get(i, [])
        if not e['igo'] and c['src'] in GENERATED:
            raise vlib.Infra('generator produced a text that encoding/json does not accept: %r' % (ident(c),))
        if any(w.startswith('oracle') for w in whys):
            raise vlib.Infra('validity oracles disagree (JsonDoc recogniser vs encoding/json.Valid) on case %r: %s'
                             % (ident(c), whys))
        if e['igo'] and not e['panic']:
            # second opinions on equality (independent Go comparison of raw lexemes, encoding/json decoder)
            if not whys and not (e['eqraw'] and e['eqdec']):
                raise vlib.Infra('TLC accepted but the Go comparison says different: %r %r' % (ident(c), e))
            if 'value differs' in whys and e['eqraw']:
                raise vlib.Infra('TLC rejected the value but the Go comparison says equal: %r %r' % (ident(c), e))
        if st is not None:
            st.docs += 1
            st.lines += len(groups[i])
            st.by_src[c['src']] = st.by_src.get(c['src'], 0) + 1
            if e['igo']:
                st.in_scope += 1
                if not whys:
                    st.accepted_docs += 1
                    st.accepted_lines += len(groups[i])
                    if e['olen'] != e['ilen'] or e['nchg']:
                        st.nontrivial.add(hash((c['keep'], c.get('text') or (c['file'], c['off'], c['len']))))
                    if e['nchg']:
                        st.numchg += 1
                    if not e['keep'] and e['olen'] > e['ilen']:
                        st.longer_nokeep += 1
                        if st.longer_sample is None and 'text' in c:
                            st.longer_sample = c['text'].decode('latin1')
                    if e['err']:
                        st.err_on_valid += 1
                    if 'text' in c and len(st.samples) < 8 and st.docs % 4099 == 1:
                        st.samples.append(dict(src=c['src'], keep=c['keep'], api=c['api'], **{'in': c['text'].decode('latin1')},
                                               out_len=e['olen'], number_lexemes_rewritten=e['nchg']))
            else:
                st.out_of_scope += 1
    return rejected, last


def describe(c, e, whys):
    if 'text' in c:
        t = c['text']
        src = repr(t[:200].decode('latin1')) + ('...' if len(t) > 200 else '')
    else:
        src = '%s[%d:+%d]' % (os.path.relpath(c['file'], vlib.REPO), c['off'], c['len'])
    return 'json minify (KeepNumbers=%s, api=%s/%s) of %s: %s%s' % (
        c['keep'], c['api'], c['rd'], src, '; '.join(whys), (' [' + e.get('msg', '')[:120] + ']') if e.get('msg') else '')


def confirm(ctx, exe, cases, rejected):
    """rejected texts are re-run, each ALONE in a fresh harness process, and re-validated before they count
    (the shortest 25 of a batch: one defect usually rejects thousands of texts)"""
    def size(i):
        c = cases[i]
        return (len(c['text']) if 'text' in c else c['len'] or 10 ** 9, i)
    pick = sorted(rejected, key=size)[:25]
    sub = [cases[i] for i in pick]
    lines = []
    for k, c in enumerate(sub):
        for l in run_harness(ctx, exe, [c]):
            lines.append(re.sub(r'^\{"id":0,', '{"id":%d,' % k, l))
    rej2, last2 = judge(ctx, sub, lines)
    n = 0
    for k, c in enumerate(sub):
        if k not in rej2:
            raise vlib.Infra('rejection of case %r (%s) did not reproduce in isolation' % (ident(c), rejected[pick[k]]))
        n += 1
        if len(ctx.violations) >= 10 and vlib.case_key(ident(c)) not in ctx._known:
            continue
        out = one_output(ctx, exe, c) if 'text' in c else None
        ctx.report(ident(c), describe(c, last2[k], rej2[k]), replay_obj=dict(event=last2[k], why=rej2[k], output=out))
    return n


def one_output(ctx, exe, c):
    """the output bytes of one case (for the replay file; the trace itself carries lexemes only)"""
    lines = run_harness(ctx, exe, [c])
    ot = []
    for l in lines:
        ot += json.loads(l)['ot']
    return [bytes(t).decode('latin1') for t in ot]


def tick(ctx, what):
    if os.environ.get('VERIF_DEBUG'):
        vlib.log('[C07 %6.1fs] %s' % (time.time() - ctx.t0, what))


def run(ctx):
    exe = vlib.build_harness(ctx, 'c07')
    tick(ctx, 'harness built')
    lex, gdump, ndump, simdir, gsimdir = model_check(ctx)
    tick(ctx, 'model checking done')
    st = Stats()
    total_rej = 0
    reproduced = 0
    for batch in gen_cases(ctx, exe, lex, gdump, ndump, simdir, gsimdir, 120000):
        tick(ctx, '%d cases generated' % len(batch))
        rejected, _ = validate(ctx, exe, batch, st)
        tick(ctx, 'batch validated, %d rejected' % len(rejected))
        total_rej += len(rejected)
        if rejected:
            reproduced += confirm(ctx, exe, batch, rejected)
    if st.drift:
        vlib.log('DRIFT: %d texts where the code deviates from the design models JsonSep/JsonNumFix (error/no error, tokens '
                 'written, whitespace in the output, Repair(Number(lexeme))), e.g. %r - information, not a verdict' % (st.drift, st.drift_sample))
    srcs = ('generated texts (JsonGen dump, %s grammar tokens, whitespace variants), number lexemes (NumGen dump jsonified, '
            'simulate walks to length 40, int32/int64 exponent borders, a grid digits x dot position x exponent x sign) in 12 contexts and packed arrays, json_test.go inputs, '
            'tests/json/corpus and _benchmarks/*.json whole and cut into sub-values' % ('<=6' if ctx.quick() else '<=7'))
    ctx.coverage.update(dict(
        traces_validated_against_impl=st.accepted_lines,
        texts_validated=st.accepted_docs,
        evaluations=st.lines,
        texts_run=st.docs,
        in_scope=st.in_scope,
        out_of_scope_inputs_not_valid_json=st.out_of_scope,
        distinct_nontrivial=len(st.nontrivial),
        texts_with_rewritten_numbers=st.numchg,
        by_source=st.by_src,
        rejections=total_rej,
        rejections_reproduced=reproduced,
        design_drift=st.drift,
        design_drift_sample=st.drift_sample,
        errors_returned_on_valid_texts=st.err_on_valid,
        info_longer_output_without_number_keeping=st.longer_nokeep,
        info_longer_output_sample=st.longer_sample,
        rule='a case is (KeepNumbers, API variant, exact input bytes); sources: ' + srcs + '; non-trivial = a valid '
             'JSON text that TLC accepted and whose output differs from the input in length or in the spelling of a '
             'number lexeme; no construct is excluded from generation',
        samples=st.samples,
        exhaustive=True,
        exhaustive_bound='every valid JSON text with <= %d grammar tokens over the 14-scalar/3-key lexeme table of JsonGen; '
                         'every JSON number lexeme that is the image of a NumGen lexeme of length <= %d over {0,1,4,5,9,+,-,.,e} '
                         '(one size larger: model-checked by TLC, run on the real code for a seeded sample)'
                         % ((5, 5) if ctx.quick() else (7, 6)),
    ))
    ctx.assumptions += [
        'the harness splitter (whitespace / structural bytes / string boundaries) is the only Go code between the bytes and '
        'the TLA+ relation; validity is cross-checked against encoding/json.Valid and equality against an independent Go '
        'comparison and the encoding/json decoder - any disagreement is exit 2',
        'UTF-8 well-formedness of string contents is not part of the recogniser (strings must be byte-identical anyway)',
        'the length clause is claimed only with number keeping, as the property states; without it the output can be '
        'longer (1e-3 -> 0.001) and this is recorded as information',
        'Precision is 0 in every call',
    ]


def replay(ctx, obj):
    exe = vlib.build_harness(ctx, 'c07')
    c = case_from_ident(obj['case'])
    rejected, last = validate(ctx, exe, [c])
    print(json.dumps(dict(case=obj['case'], event=last[0], output=one_output(ctx, exe, c) if 'text' in c else None,
                          rejected=rejected.get(0, []))))
    if 0 in rejected:
        print('VIOLATION property=C07 replay=given (%s)' % '; '.join(rejected[0]))
        return 1
    print('no violation: the trace of this case is accepted')
    return 0


META = dict(
    category='model_checking',
    text='RFC 8259 is specified in TLA+ on raw token sequences (lexical DFAs, push-down recogniser, value relation JsonEq with '
         'exact rational equality of numbers from NumVal). TLC (1) checks the recogniser against a recursive-descent formulation '
         'of the grammar on every kind sequence up to the bound, (2) model-checks design models of the separator logic '
         '(parser state stack x needComma x skipComma) and of the number repair against the abstract relation with '
         'per-action coverage, (3) enumerates '
         'every valid text up to the token bound over a lexeme table as inputs, and (4) evaluates ValidText/JsonEq/length on '
         'the recorded input and output lexemes of every real json.Minify call (both KeepNumbers settings, four API variants).',
    design_ref='DESIGN.md section 4, C07',
    note='Trusted: TLC; spec/JsonDoc.tla + NumVal.tla + BigNat.tla as the meaning of a JSON text; the 60-line splitter in '
         'harness/cmd/c07. Beyond the exhaustive bounds coverage is sampled (simulate walks, corpus sub-values).',
    technique='TLA+ generator automaton + design model + TLC trace validation of the value relation',
)
