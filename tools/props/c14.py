"""C14  I/O failures surface as errors, never as silent truncation or deadlock.

MC : spec/Stream.tla restricted to the plain call and the Writer / Reader wrappers with every fault
     position of source and sink (Stream_c14_<tier>.cfg): FaultSurfaces, NoSilentTruncation, CloseWaits,
     liveness <>CloseReturned, deadlock; wrong designs (no probe write, error not stored, reader error
     swallowed) must be rejected.
RUN: fault enumeration on the real code (harness/cmd/c12, flat records): for every chosen input of every
     media type, a fault-free run gives the number of sink calls nw; then the sink fails from its k-th call
     on for every k in 1..nw+1, the source fails after k bytes for every k in 0..len (with and without a
     short final read; plain error, io.ErrUnexpectedEOF, an error wrapping io.EOF), both together; the same
     through m.Writer (sink faults) and m.Reader (source faults).
TV : spec/C14Trace.tla evaluates FaultSurfaces on every record.
"""
import json
import os
from concurrent.futures import ThreadPoolExecutor

import vlib
from props import c12 as base

PID = 'C14'
ORDER = base.ORDER
TYPES = base.TYPES
# inputs that end in the middle of a construct: the final error probe sits at the end of each minifier's loop
UNTERMINATED = {
    'css': [b'a{b:c', b'/* c', b'a{b:"x', b'@media x{a{b:c}', b'a{b:url(x', b'a[b="c', b'a{b:c;', b'a{b:rgb(1,2', b'@import "x'],
    'html': [b'<a href="x', b'<!-- c', b'<a', b'<script>x', b'<style>a{', b'<p>a<', b'a &amp', b'<textarea>x', b'<![CDATA[x',
             b'<svg><path d="M0', b'<p style="a:b', b'<a onclick="x('],
    'js': [b'a = "x', b'/* c', b'a = (b', b'a = `b${c', b'function f(){', b'a = /re', b'if(a)', b'a +', b'a = {b:', b'// c'],
    'json': [b'{"a":', b'[1,', b'"abc', b'{"a"', b'[1, 2', b'tru', b'{', b'[[['],
    'svg': [b'<svg><path d="M0 0', b'<svg><!-- c', b'<svg><g', b'<svg><style>a{', b'<svg><![CDATA[x', b'<svg><g fill="#ff'],
    'xml': [b'<a b="c', b'<!-- c', b'<a><![CDATA[x', b'<?xml', b'<a>b', b'<!DOCTYPE a [', b'<a> '],
}


# short representative documents, one token kind after the other; every prefix of each is an input, so that the input
# ends in every distinct lexer / minifier state (inside a comment, PI, CDATA, DOCTYPE, tag, attribute value, string,
# url(, template literal, regex, raw-text element, ...): an early return for one particular end-of-input state skips
# the final probe write only for inputs that end exactly there
TRUNC = base.TRUNC


def truncations(ctx, suite):
    """every prefix of the representative documents (quick) and of every suite input (thorough)"""
    out = {}
    for t in ORDER:
        seen, lst = set(), []
        docs = list(TRUNC[t])
        if not ctx.quick():
            docs += [s for s in suite[t] if len(s) <= 4000]
        for d in docs:
            n = len(d)
            step = 1 if n <= 160 else max(2, n // 120)
            for k in range(1, n + 1):
                if step > 1 and k > 80 and k < n - 20 and k % step:
                    continue
                p = d[:k]
                if p not in seen:
                    seen.add(p)
                    lst.append(p)
        out[t] = lst
    return out


def choose_inputs(ctx, suite):
    rnd = ctx.rnd
    out = {}
    for t in ORDER:
        pool = [s for s in suite[t] if len(s) <= (160 if ctx.quick() else 4000)]
        if ctx.quick():
            picked = vlib.sample(pool, 9, rnd)
        else:
            picked = list(pool)
        # seeded prefixes of suite inputs: the input stops at an arbitrary byte
        pref = []
        for s in vlib.sample(pool, 4 if ctx.quick() else 120, rnd):
            if len(s) > 2:
                pref.append(s[:rnd.randrange(1, len(s))])
        seen, lst = set(), []
        for s in picked + UNTERMINATED[t] + pref:
            if s not in seen and len(s) > 0:
                seen.add(s)
                lst.append(s)
        out[t] = lst
    return out


# method sets of the failing writer: the code may duck-type its writer (Bytes(), WriteString, ReadFrom, ResponseWriter)
SHAPES = ['', 'bytes', 'stringwriter', 'readfrom', 'response', 'all']


def make_cases(ctx, inputs, trunc):
    rnd = ctx.rnd
    cases = []
    quick = ctx.quick()
    # Close as the FIRST call on the writer wrapper (empty input, no Write call at all) against a sink that fails from its
    # first call, many rounds under different GOMAXPROCS: Close must wait for a worker that may not even have started
    for t in ORDER:
        for r in range(30 if quick else 200):
            reg = base.REGS[r % 3]
            cases.append(dict(id=len(cases), mode='writer', mt=base.mt_for(t, reg, rnd, params=False), reg=reg, enum='sink',
                              stride=1, chunks=[], tag='closefirst:' + t, rep=r, **{'in': []}))
    # inputs that end in every lexer / minifier state: the sink fails from every call k, plain call
    done = set()
    for t in ORDER:
        for j, s in enumerate(trunc[t]):
            done.add((t, s))
            reg = base.REGS[j % 3]
            cases.append(dict(id=len(cases), mode='plain', mt=base.mt_for(t, reg, rnd, params=False), reg=reg, enum='sink',
                              stride=1 if len(s) <= 400 else 4, chunks=[], tag='trunc:' + t, wshape=SHAPES[j % len(SHAPES)], **{'in': list(s)}))
    for t in ORDER:
        for j, s in enumerate(inputs[t]):
            reg = base.REGS[j % 3]
            mt = base.mt_for(t, reg, rnd, params=(j % 3 == 0))
            stride = 1 if len(s) <= (48 if quick else 400) else max(2, len(s) // (24 if quick else 200))
            cases.append(dict(id=len(cases), mode='plain', mt=mt, reg=reg, enum='both', stride=stride, wshape=SHAPES[(j + 1) % len(SHAPES)],
                              chunks=base.rand_partition(len(s), rnd) if j % 2 else [], tag=t, **{'in': list(s)}))
            if j < (6 if quick else 10 ** 9):
                # the same input against every writer shape (sink faults only)
                for sh in SHAPES[1:]:
                    cases.append(dict(id=len(cases), mode='plain', mt=mt, reg=reg, enum='sink', stride=stride, wshape=sh, chunks=[],
                                      tag='shape:' + t, **{'in': list(s)}))
            if not quick or j % 2 == 0:
                cases.append(dict(id=len(cases), mode='writer', mt=mt, reg=reg, enum='sink', stride=stride, wshape=SHAPES[j % len(SHAPES)],
                                  chunks=base.rand_partition(len(s), rnd), tag=t, **{'in': list(s)}))
            if not quick or j % 3 == 0:
                cases.append(dict(id=len(cases), mode='reader', mt=mt, reg=reg, enum='src', stride=stride if not quick else max(stride, 2),
                                  chunks=base.rand_partition(len(s), rnd), rbufs=rnd.choice([[1], [3, 1], [4096], [64]]),
                                  tag=t, **{'in': list(s)}))
    return cases


def explicit_case(cases, rec):
    c = cases[rec['cid']]
    d = dict(id=0, mode=rec['mode'], mt=rec['mt'], reg=c['reg'], chunks=rec['chunks'], sf=rec['sf'], short=rec['short'],
             serr=rec['serr'], ff=rec['ff'], wshape=rec.get('wshape', ''), sum=True, **{'in': c['in']})
    if 'rbufs' in c:
        d['rbufs'] = c['rbufs']
    return d


def identity(c):
    d = {k: c[k] for k in ('mode', 'mt', 'reg', 'chunks', 'rbufs', 'sf', 'short', 'serr', 'ff') if k in c}
    if c.get('wshape'):
        d['wshape'] = c['wshape']
    d['in'] = bytes(c['in']).decode('latin1')
    return d


def describe(c, rec, why):
    inp = bytes(c['in']).decode('latin1')
    return ('%s(%s)%s input=%r (%d bytes) source fails after %s bytes%s (%s), sink fails from call %s: returned %s %r, '
            'delivered %d of %d bytes, panic=%s blocked=%s: %s'
            % (c['mode'], c['mt'], ' writer shape ' + c['wshape'] if c.get('wshape') else '', inp[:60], len(inp), c['sf'] if c['sf'] >= 0 else 'never', ' with short final read' if c.get('short') else '',
               c.get('serr', 'plain'), c['ff'] or 'never', rec.get('ret'), rec.get('rett', '')[:60], rec.get('deln', 0), rec.get('wantn', 0),
               rec.get('panic'), rec.get('blocked'), why))


def validate(ctx, lines):
    return base.trace_validate(ctx, 'C14Trace', 'C14Trace.cfg', lines, linear=True, min_per_shard=4000)


def selftest(ctx, lines, rejected):
    """corrupt recorded fields of accepted records; TLC must reject each with the expected clause"""
    bad = []

    def pick(pred):
        for i, l in enumerate(lines):
            if i not in rejected:
                r = json.loads(l)
                if pred(r):
                    return r
        return None
    r = pick(lambda r: r['mode'] == 'plain' and r['whit'] and not r['rhit'] and r['wante'] == 'nil')
    if r:
        bad.append((dict(r, ret='nil', res=['nil']), 'reported as success'))
        bad.append((dict(r, ret='other', res=['other']), 'neither the reader'))
        bad.append((dict(r, panic=True), 'panicked'))
    r = pick(lambda r: r['mode'] == 'plain' and r['rhit'] and r['wante'] == 'nil' and r['serr'] == 'wrapeof')
    if r:
        bad.append((dict(r, ret='nil', res=['nil']), 'reported as success'))
    r = pick(lambda r: r['mode'] == 'plain' and not r['rhit'] and not r['whit'] and r['wante'] == 'nil' and r['wantn'] > 0)
    if r:
        bad.append((dict(r, deln=r['deln'] - 1), 'not the complete output'))
    r = pick(lambda r: r['mode'] == 'writer' and r['whit'] and r['wante'] == 'nil')
    if r:
        bad.append((dict(r, closed=False), 'blocked'))
        bad.append((dict(r, ret='nil', res=['nil' for _ in r['res']]), 'reported as success'))
    r = pick(lambda r: r['mode'] == 'reader' and r['rhit'] and r['wante'] == 'nil')
    if r:
        bad.append((dict(r, ret='eof', res=['eof']), 'reported as success'))
    if len(bad) < 5:
        if ctx.violations:
            return      # (nearly) everything was rejected: the verdict stands
        raise vlib.Infra('binding self-test: no suitable accepted records to corrupt')
    acc, rej = validate(ctx, [json.dumps(a, separators=(',', ':')) for a, _ in bad])
    got = {}
    for k, w in rej:
        got.setdefault(k, []).append(w)
    for k, (a, clause) in enumerate(bad):
        if not any(clause in w for w in got.get(k, [])):
            raise vlib.Infra('binding self-test: corrupted record %d not rejected by "%s" (got %s)' % (k, clause, got.get(k)))
    ctx.coverage['selftest_corrupted_records_rejected'] = len(bad)


def mc_jobs(ctx, tier):
    def main():
        r = vlib.tlc(ctx, 'Stream', 'Stream_c14_%s.cfg' % tier, workers=max(2, min(6, vlib.JOBS // 2)), timeout=1500, heap='6g')
        base.ok(r, 'Stream_c14_%s.cfg' % tier)
        return dict(design_states=r['distinct'], design_transitions=r['generated'], design_depth=r['depth'])

    def mut(name, expect):
        def f():
            r = vlib.tlc(ctx, 'Stream', 'Stream_mut_%s.cfg' % name, workers=2, timeout=900, heap='3g')
            viol = set(r['invariant_violations'])
            if not (viol & set(expect)):
                raise vlib.Infra('wrong design %s not rejected by %s (got %s)\n%s' % (name, expect, viol, r['out'][-1500:]))
            return {'wrong_design_' + name: 'rejected by ' + sorted(viol & set(expect))[0]}
        return f
    muts = [m for m in base.MUTANTS if m[0] in ('noprobe', 'eofswallow', 'noerr', 'addinside')]   # (dirtybuf is C12's)
    return [('main', main)] + [('mut_' + n, mut(n, e)) for n, e in muts]


def run(ctx):
    quick = ctx.quick()
    ctx.level = 'fault_enumeration'
    exe = base.build(ctx)
    vlib._speccopy(ctx)
    pool = ThreadPoolExecutor(max_workers=2)
    futs = [(n, pool.submit(f)) for n, f in mc_jobs(ctx, 'quick' if quick else 'thorough')]
    suite = base.suite_inputs(ctx)
    inputs = choose_inputs(ctx, suite)
    trunc = truncations(ctx, suite)
    cases = make_cases(ctx, inputs, trunc)
    ctx.coverage['truncated_inputs'] = sum(len(v) for v in trunc.values())
    pinned = vlib.known_cases(PID)
    # ---- RUN
    lines = base.run_driver(ctx, exe, cases, 'enum', procs=max(1, min(vlib.JOBS, 8)), timeout=2400)
    plines = []
    for p in pinned:
        c = dict(p, id=0, sum=True)
        c['in'] = list(c['in'].encode('latin1'))
        st, l1, err = base.run_alone(ctx, exe, c, 'pinned%d' % len(plines))
        if st != 'ok' or len(l1) != 1:
            raise vlib.Infra('pinned witness did not run: %s %s' % (st, err[-500:]))
        plines.append((c, l1[0]))
    # a driver process that died inside an enumeration case: rerun that case alone; if it dies again it is a panic
    for c, err in base.CRASHED[:6]:
        st, l2, err2 = base.run_alone(ctx, exe, c, 'crash%d' % c['id'])
        if st == 'crash':
            ident = dict(identity(dict(c, sf=-1, ff=0)), enum=c['enum'])
            ctx.report(ident, '%s(%s) input=%r: the process crashes (panic in a goroutine of the code under test) during fault enumeration: %s'
                       % (c['mode'], c['mt'], bytes(c['in']).decode('latin1')[:60], err2[-300:]), dict(case=ident, stderr=err2[-1500:]))
    # ---- TV
    accepted, rejects = validate(ctx, lines)
    recs = None
    if rejects:
        why = {}
        for i, w in rejects:
            why.setdefault(i, []).append(w)
        reproduced = 0
        seen = set()
        again = []
        for i in sorted(why):
            if len(seen) >= 30:
                break
            rec = json.loads(lines[i])
            c = explicit_case(cases, rec)
            k = vlib.case_key(identity(c))
            if k in seen:
                continue
            seen.add(k)
            blocked = rec.get('blocked') or not rec.get('closed')
            st, l2, err = base.run_alone(ctx, exe, c, 'r%d' % i, nowatchdog=bool(blocked))
            if st == 'deadlock':
                reproduced += 1
                ctx.report(identity(c), describe(c, rec, 'blocks forever (Go runtime: all goroutines are asleep)'), dict(case=identity(c), stderr=err[-800:]))
                continue
            if st == 'crash':
                reproduced += 1
                ctx.report(identity(c), describe(c, rec, 'process crashed: ' + err[-300:]), dict(case=identity(c), stderr=err[-1500:]))
                continue
            if len(l2) != 1:
                raise vlib.Infra('isolated rerun produced %d lines' % len(l2))
            again.append((c, l2[0]))
        if again:
            a2, r2 = validate(ctx, [l for _, l in again])
            why2 = {}
            for k, w in r2:
                why2.setdefault(k, []).append(w)
            for k in sorted(why2):
                c, l = again[k]
                reproduced += 1
                ctx.report(identity(c), describe(c, json.loads(l), '; '.join(sorted(set(why2[k])))), dict(case=identity(c), record=json.loads(l)))
        ctx.coverage['rejections'] = len(why)
        ctx.coverage['rejections_reproduced'] = reproduced
        if reproduced == 0:
            raise vlib.Infra('rejected records did not reproduce in isolation: %s' % [(i, why[i]) for i in sorted(why)[:5]])
    selftest(ctx, lines, set(i for i, _ in rejects))
    for c, l in plines:
        a2, r2 = validate(ctx, [l])
        if r2:
            ctx.report(identity(c), describe(c, json.loads(l), '; '.join(sorted(set(w for _, w in r2)))), dict(case=identity(c)))
    # ---- MC results
    for n, f in futs:
        info = f.result()
        if n == 'main':
            ctx.mc['states'] += info['design_states']
            ctx.mc['transitions'] += info['design_transitions']
        ctx.coverage.update(info)
    pool.shutdown()
    # ---- evidence
    hit = set()
    by_mode, by_kind = {}, {}
    samples = []
    ninputs = sum(len(v) for v in inputs.values())
    for i, l in enumerate(lines):
        r = json.loads(l)
        by_mode[r['mode']] = by_mode.get(r['mode'], 0) + 1
        if r['rhit'] or r['whit']:
            hit.add((r['cid'], r['mode'], r['sf'], r['short'], r['serr'], r['ff']))
            kind = ('src' if r['rhit'] else '') + ('+sink' if r['whit'] else '')
            by_kind[kind] = by_kind.get(kind, 0) + 1
        if len(samples) < 6 and i % 4999 == 17:
            c = cases[r['cid']]
            samples.append(dict(mode=r['mode'], mt=r['mt'], input=bytes(c['in']).decode('latin1')[:80], sf=r['sf'], short=r['short'],
                                serr=r['serr'], ff=r['ff'], rhit=r['rhit'], whit=r['whit'], ret=r['ret'], res=r['res'][:6],
                                delivered=r['deln'], want=r['wantn']))
    if not samples and lines:
        r = json.loads(lines[len(lines) // 2])
        samples.append({k: r[k] for k in ('mode', 'mt', 'sf', 'short', 'serr', 'ff', 'rhit', 'whit', 'ret', 'deln', 'wantn')})
    ctx.coverage.update(dict(
        states=ctx.mc['states'], transitions=ctx.mc['transitions'],
        traces_validated_against_impl=accepted,
        evaluations=len(lines),
        distinct_nontrivial=len(hit),
        inputs=ninputs,
        records_by_mode=by_mode,
        records_with_fault_delivered=by_kind,
        rule='every prefix of %s (inputs ending in every lexer/minifier state; sink faults at every call); and for each chosen input '
             '(suite inputs of the six media types%s, inputs ending inside a construct, seeded prefixes): a '
             'fault-free run, then one run per fault position - sink failing from its k-th call on for every k in 1..nw+1, '
             'source failing after k bytes for every k in 0..len x {separate, short final read} x {plain error, '
             'io.ErrUnexpectedEOF, error wrapping io.EOF}, both armed together; plain Minify, and the Writer (sink faults) and '
             'Reader (source faults) wrappers%s. A case is (input, entry point, fault position/kind); non-trivial = the double '
             'actually returned its error to the code under test.'
             % ('%d representative documents per media type' % max(len(v) for v in TRUNC.values()) if quick else 'the representative documents and every suite input',
                ' (seeded subset)' if quick else '', '; positions of inputs longer than 48 bytes are strided in the quick tier' if quick else ''),
        samples=samples,
        exhaustive=not quick,
    ))
    ctx.assumptions += [
        'TLC evaluates spec/C14Trace.tla (FaultSurfaces) on every record',
        'error identity is decided by errors.Is against the sentinel values injected by the doubles',
        'strict identity (the reader\'s or the writer\'s error) is required when the fault-free run of the same input succeeds; '
        'for inputs whose fault-free run fails (syntax errors) any non-nil error is accepted, because a parse error may precede the I/O error',
        'a blocked call is confirmed in an isolated rerun without timers, where the Go runtime reports the deadlock itself',
    ]


def replay(ctx, obj):
    exe = base.build(ctx)
    c = dict(obj['case'])
    c['in'] = list(c['in'].encode('latin1')) if isinstance(c['in'], str) else c['in']
    c.update(id=0, sum=True)
    st, lines, err = base.run_alone(ctx, exe, c, 'replay')
    if st != 'ok' or not lines:
        st2, _, err2 = base.run_alone(ctx, exe, c, 'replay2', nowatchdog=True)
        print('run did not complete:', st, st2, (err2 or err)[-400:])
        print('VIOLATION property=%s replay=given' % PID)
        return 1
    print(lines[0])
    acc, rej = validate(ctx, lines)
    for _, w in rej:
        print('rejected:', w)
    if rej:
        print('VIOLATION property=%s replay=given' % PID)
        return 1
    print('accepted')
    return 0


META = dict(
    category='fault_enumeration',
    text='Every fault position is enumerated on the real code: for each input of each media type the sink double fails from its '
         'k-th call on for every k up to the number of writes of the fault-free run (+1), the source double fails after every '
         'byte count (with/without a short final read; plain error, io.ErrUnexpectedEOF, error wrapping io.EOF), both together, '
         'through plain Minify and through the Writer and Reader wrappers; TLC validates FaultSurfaces (non-nil, the reader\'s or '
         'the writer\'s error, no success with incomplete output, no panic, the call returns) on every record. The same fault '
         'space is model-checked on the design model Stream.tla (all fault positions, liveness, deadlock), and wrong designs '
         '(no probe write, error not stored, reader error swallowed) are rejected.',
    design_ref='DESIGN.md section 4 C14, Appendix A.2',
    note='Trusted: TLC; the fault-injecting doubles; errors.Is for error identity. Exhaustive in the fault position per input; '
         'inputs are the suites\' inputs plus unterminated constructs and seeded prefixes (quick: seeded subset, strided positions '
         'for inputs above 48 bytes).',
    technique='fault enumeration on the real code validated by TLC against the FaultSurfaces invariant of the Stream design model',
)
