"""C08  Number/Decimal shortening keeps the numeric value.

MC : NumGen (generator automaton of the number grammar) checked exhaustively, with the
     design-level sanity invariants of NumVal; its state dump is the input set.
RUN: harness/cmd/c08 calls the real minify.Number / minify.Decimal on guarded buffers.
TV : C08Trace evaluates NumberOK / DecimalOK (spec/NumVal.tla) on every recorded call.
"""
import json
import os
import re

import vlib

ACCEPT = {2, 3, 4, 8}
DECIMAL = {2, 3, 4}


def lexemes_from_dump(path):
    lex, st = [], []
    for line in open(path):
        if line.startswith('/\\ lex = '):
            lex.append(vlib.tla_seq_to_list(line[len('/\\ lex = '):]))
        elif line.startswith('/\\ st = '):
            st.append(int(line[len('/\\ st = '):]))
    assert len(lex) == len(st)
    return [(l, s) for l, s in zip(lex, st) if s in ACCEPT]


def lexemes_from_sim(prefix_dir):
    """last state of every simulated behaviour that is accepting"""
    out = []
    for fn in sorted(os.listdir(prefix_dir)):
        txt = open(os.path.join(prefix_dir, fn)).read()
        lexs = re.findall(r'lex = (<<[^>]*>>)', txt)
        sts = re.findall(r'st = (-?\d+)', txt)
        # every accepting prefix along the walk is a lexeme
        for l, s in zip(lexs, sts):
            if int(s) in ACCEPT:
                out.append((vlib.tla_seq_to_list(l), int(s)))
    return out


def repo_inputs():
    """number lexemes used by the repository's own tests and fuzz corpora"""
    out = set()
    for d in ('tests/number/corpus', 'tests/decimal/corpus'):
        p = os.path.join(vlib.REPO, d)
        if os.path.isdir(p):
            for fn in sorted(os.listdir(p)):
                b = open(os.path.join(p, fn), 'rb').read()
                out.add(bytes(b).strip())
    p = os.path.join(vlib.REPO, 'common_test.go')
    if os.path.exists(p):
        for m in re.finditer(r'\{"([-+.0-9eE]+)", "[-+.0-9eE]*"\}', open(p).read()):
            out.add(m.group(1).encode())
        for m in re.finditer(r'\{"([-+.0-9eE]+)", \d+, "[-+.0-9eE]*"\}', open(p).read()):
            out.add(m.group(1).encode())
    return out


NUM_RE = re.compile(rb'^[+-]?(\d+\.?\d*|\.\d+)([eE][+-]?\d+)?\Z')
DEC_RE = re.compile(rb'^[+-]?(\d+\.?\d*|\.\d+)\Z')


def make_cases(ctx):
    quick = ctx.quick()
    cfg = 'NumGen_quick.cfg' if quick else 'NumGen_thorough.cfg'
    dump = ctx.path('gen', 'numgen')
    r = vlib.tlc_mc(ctx, 'NumGen', cfg, dump=dump, workers=min(16, vlib.NCPU), heap='6g', timeout=3000)
    lexs = lexemes_from_dump(dump + '.dump')
    ctx.coverage['generator_states'] = r['distinct']
    ctx.coverage['lexemes_enumerated'] = len(lexs)
    # random walks far beyond the exhaustive bound (TLC -simulate on the same automaton)
    simdir = ctx.path('sim', 'x')
    simdir = os.path.dirname(simdir)
    nsim = 300 if quick else 3000
    rs = vlib.tlc(ctx, 'NumGen', 'NumGen_sim.cfg', workers=1, simulate='file=%s/b,num=%d' % (simdir, nsim),
                  depth=40, seed=ctx.seed, timeout=600)
    if rs['errors']:
        raise vlib.Infra('simulate failed: ' + rs['out'][-1500:])
    sims = lexemes_from_sim(simdir)
    ctx.coverage['lexemes_simulated'] = len(sims)
    precs_exh = [0, -1, 1, 2, 3, 15] if quick else [0, -1] + list(range(1, 21))
    precs_all = [0, -1] + list(range(1, 21))
    cases = []
    seen = set()

    def add(fn, lex, prec):
        k = (fn, bytes(lex), prec)
        if k in seen:
            return
        seen.add(k)
        cases.append(dict(id=len(cases), fn=fn, prec=prec, **{'in': list(lex)}))

    # exhaustive set; in quick mode each lexeme gets a seeded subset of the precisions so that the
    # whole set is covered with every precision family within the time budget
    for lex, st in lexs:
        if quick:
            ps = [0, ctx.rnd.choice(precs_exh[1:]), ctx.rnd.choice([1, 2, 3])]
        else:
            ps = precs_exh
        for p in ps:
            add('Number', lex, p)
            if st in DECIMAL:
                add('Decimal', lex, p)
    for lex, st in sims:
        for p in (precs_all if not quick else [0, ctx.rnd.choice(precs_all), ctx.rnd.choice([1, 2, 3, 4, 5])]):
            add('Number', lex, p)
            if st in DECIMAL:
                add('Decimal', lex, p)
    for b in sorted(repo_inputs()):
        for p in precs_all:
            if NUM_RE.match(b):
                add('Number', b, p)
            if DEC_RE.match(b):
                add('Decimal', b, p)
    return cases


def run_cases(ctx, exe, cases, tag):
    cin = ctx.path('run', tag + '-cases.ndjson')
    tout = ctx.path('run', tag + '-trace.ndjson')
    with open(cin, 'w') as f:
        for c in cases:
            f.write(json.dumps(c, separators=(',', ':')) + '\n')
    vlib.run([exe, cin, tout], timeout=1800)
    return [l.rstrip('\n') for l in open(tout)]


def ident(c):
    return dict(fn=c['fn'], prec=c['prec'], **{'in': bytes(c['in']).decode('latin1')})


def validate(ctx, exe, cases, tag):
    lines = run_cases(ctx, exe, cases, tag)
    if len(lines) != len(cases):
        raise vlib.Infra('harness wrote %d lines for %d cases' % (len(lines), len(cases)))
    accepted, rejects = vlib.tlc_trace(ctx, 'C08Trace', 'C08Trace.cfg', lines)
    return lines, accepted, rejects


def run(ctx):
    exe = vlib.build_harness(ctx, 'c08')
    cases = make_cases(ctx)
    pinned = vlib.known_cases('C08')
    for c in pinned:
        c = dict(c)
        c['id'] = len(cases)
        c['in'] = list(c['in'].encode('latin1')) if isinstance(c['in'], str) else c['in']
        cases.append(c)
    lines, accepted, rejects = validate(ctx, exe, cases, 'main')
    nontrivial = set()
    samples = []
    for l in lines[:: max(1, len(lines) // 4000)]:
        pass
    changed = 0
    for i, l in enumerate(lines):
        e = json.loads(l)
        if e['out'] != e['in']:
            changed += 1
            nontrivial.add((e['fn'], bytes(e['in']), e['prec']))
            if len(samples) < 6 and i % 9973 == 0:
                samples.append(dict(fn=e['fn'], prec=e['prec'], **{'in': bytes(e['in']).decode('latin1')},
                                    out=bytes(e['out']).decode('latin1')))
    # every rejected call is re-run alone (fresh process) and re-validated before it counts
    if rejects:
        bad = sorted(set(i for i, _ in rejects))
        why = {}
        for i, w in rejects:
            why.setdefault(i, []).append(w)
        sub = [dict(cases[i], id=k) for k, i in enumerate(bad[:400])]
        lines2, acc2, rej2 = validate(ctx, exe, sub, 'rerun')
        still = sorted(set(k for k, _ in rej2))
        for k in still:
            c = cases[bad[k]]
            e = json.loads(lines2[k])
            desc = '%s(%r, %d) = %r rejected by %s' % (c['fn'], bytes(c['in']).decode('latin1'), c['prec'],
                                                     bytes(e['out']).decode('latin1') if not e['panic'] else 'PANIC',
                                                     '/'.join(why[bad[k]]))
            ctx.report(ident(c), desc, replay_obj=e)
        ctx.coverage['rejections'] = len(bad)
        ctx.coverage['rejections_reproduced'] = len(still)
    if not samples:
        e = json.loads(lines[len(lines) // 2])
        samples.append(dict(fn=e['fn'], prec=e['prec'], **{'in': bytes(e['in']).decode('latin1')},
                            out=bytes(e['out']).decode('latin1')))
    ctx.coverage.update(dict(
        traces_validated_against_impl=accepted,
        evaluations=len(lines),
        distinct_nontrivial=len(nontrivial),
        rule='every lexeme of the number grammar up to the exhaustive length bound over digits {0,1,4,5,9} '
             '(TLC state dump of NumGen), lexemes met along TLC -simulate walks to length 40, and the '
             'repository corpus/test inputs, crossed with precisions; a case is (fn, lexeme, precision); '
             'non-trivial = the helper returned bytes different from its input',
        samples=samples,
        exhaustive=True,
        exhaustive_bound='all lexemes with length <= %s over {0,1,4,5,9,+,-,.,e}' % ('6' if ctx.quick() else '7'),
    ))
    ctx.assumptions += ['TLC evaluates NumVal.NumberOK/DecimalOK; BigNat digit arithmetic (cross-checked against math/big in harness selftest)',
                        'each call uses a fresh guarded buffer (guard bytes both sides, cap==len)']


def replay(ctx, obj):
    exe = vlib.build_harness(ctx, 'c08')
    c = obj['case']
    case = dict(id=0, fn=c['fn'], prec=c['prec'], **{'in': list(c['in'].encode('latin1'))})
    lines, accepted, rejects = validate(ctx, exe, [case], 'replay')
    print(lines[0])
    if rejects:
        print('VIOLATION property=C08 replay=%s' % 'given')
        return 1
    return 0


META = dict(
    category='model_checking',
    text='TLC enumerates the number grammar exhaustively up to the length bound (generator automaton NumGen, design '
         'invariants of the value relation checked in every state) and evaluates the TLA+ relation NumberOK/DecimalOK '
         '(exact rational equality via digit-sequence arithmetic; half-ulp bound for precision>0; grammar; length; '
         'guard bytes) on the recorded result of every real call. Exhaustive within the bound, random walks and the '
         'repository corpus beyond it.',
    design_ref='DESIGN.md section 4, C08',
    note='Trusted: TLC, spec/NumVal.tla + BigNat.tla as the meaning of a number lexeme; harness guard-buffer probe for '
         'out-of-slice writes. Beyond the exhaustive bound coverage is sampled (TLC -simulate).',
    technique='TLA+ generator automaton + TLC trace validation of the value relation',
)
