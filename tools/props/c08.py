"""C08  Number/Decimal shortening keeps the numeric value.

MC : NumGen (generator automaton of the number grammar) checked exhaustively, with the
     design-level sanity invariants of NumVal; its state dump is the input set.
RUN: harness/cmd/c08 calls the real minify.Number / minify.Decimal on guarded buffers.
TV : C08Trace evaluates NumberOK / DecimalOK (spec/NumVal.tla) on every recorded call.
"""
import json
import os
import re

import vlib

ACCEPT = {2, 3, 4, 8}
DECIMAL = {2, 3, 4}


def lexemes_from_dump(path):
    lex, st = [], []
    for line in open(path):
        if line.startswith('/\\ lex = '):
            lex.append(vlib.tla_seq_to_list(line[len('/\\ lex = '):]))
        elif line.startswith('/\\ st = '):
            st.append(int(line[len('/\\ st = '):]))
    assert len(lex) == len(st)
    return [(l, s) for l, s in zip(lex, st) if s in ACCEPT]


def lexemes_from_sim(prefix_dir):
    """last state of every simulated behaviour that is accepting"""
    out = []
    for fn in sorted(os.listdir(prefix_dir)):
        txt = open(os.path.join(prefix_dir, fn)).read()
        lexs = re.findall(r'lex = (<<[^>]*>>)', txt)
        sts = re.findall(r'st = (-?\d+)', txt)
        # every accepting prefix along the walk is a lexeme
        for l, s in zip(lexs, sts):
            if int(s) in ACCEPT:
                out.append((vlib.tla_seq_to_list(l), int(s)))
    return out


def repo_inputs():
    """number lexemes used by the repository's own tests and fuzz corpora"""
    out = set()
    for d in ('tests/number/corpus', 'tests/decimal/corpus'):
        p = os.path.join(vlib.REPO, d)
        if os.path.isdir(p):
            for fn in sorted(os.listdir(p)):
                b = open(os.path.join(p, fn), 'rb').read()
                out.add(bytes(b).strip())
    p = os.path.join(vlib.REPO, 'common_test.go')
    if os.path.exists(p):
        for m in re.finditer(r'\{"([-+.0-9eE]+)", "[-+.0-9eE]*"\}', open(p).read()):
            out.add(m.group(1).encode())
        for m in re.finditer(r'\{"([-+.0-9eE]+)", \d+, "[-+.0-9eE]*"\}', open(p).read()):
            out.add(m.group(1).encode())
    return out


NUM_RE = re.compile(rb'^[+-]?(\d+\.?\d*|\.\d+)([eE][+-]?\d+)?\Z')
DEC_RE = re.compile(rb'^[+-]?(\d+\.?\d*|\.\d+)\Z')


def case_stream(ctx, pred):
    """yields batches (lists) of cases; nothing large is kept in memory"""
    quick = ctx.quick()
    cfg = 'NumGen_quick.cfg' if quick else 'NumGen_thorough.cfg'
    dump = ctx.path('gen', 'numgen')
    r = vlib.tlc_mc(ctx, 'NumGen', cfg, dump=dump, workers=min(16, vlib.NCPU), heap='6g', timeout=3000)
    lexs = lexemes_from_dump(dump + '.dump')
    os.remove(dump + '.dump')
    ctx.coverage['generator_states'] = r['distinct']
    ctx.coverage['lexemes_enumerated'] = len(lexs)
    simdir = os.path.dirname(ctx.path('sim', 'x'))
    nsim = 300 if quick else 3000
    rs = vlib.tlc(ctx, 'NumGen', 'NumGen_sim.cfg', workers=1, simulate='file=%s/b,num=%d' % (simdir, nsim),
                  depth=40, seed=ctx.seed, timeout=600)
    if rs['errors']:
        raise vlib.Infra('simulate failed: ' + rs['out'][-1500:])
    sims = lexemes_from_sim(simdir)
    ctx.coverage['lexemes_simulated'] = len(sims)
    precs_all = [0, -1] + list(range(1, 21))
    BATCH = 400000
    batch, seen_small = [], set()

    def add(fn, lex, prec):
        batch.append(dict(id=len(batch), fn=fn, prec=prec, **{'in': list(lex)}))

    def both(lex, st, ps):
        for p in ps:
            add('Number', lex, p)
            if st in DECIMAL:
                add('Decimal', lex, p)

    full_len = 4 if quick else 6          # lexemes up to this length get every precision
    for lex, st in lexs:
        if len(lex) <= full_len:
            ps = precs_all
        elif quick:
            ps = [0, ctx.rnd.choice([-1] + list(range(4, 21))), ctx.rnd.choice([1, 2, 3])]
        else:
            ps = [0, ctx.rnd.choice([-1] + list(range(5, 21))), ctx.rnd.choice([1, 2]), ctx.rnd.choice([3, 4])]
        both(lex, st, ps)
        if len(batch) >= BATCH:
            yield batch
            batch = []
    for lex, st in sims:
        both(lex, st, precs_all if not quick else [0, ctx.rnd.choice(precs_all), ctx.rnd.choice([1, 2, 3, 4, 5])])
        if len(batch) >= BATCH:
            yield batch
            batch = []
    # exponents at the edges of the machine integer ranges (the helpers do int arithmetic on exponents),
    # crossed with every short mantissa shape of the exhaustive set
    edges = []
    for base in (2 ** 63, 2 ** 31, 2 ** 15, 10 ** 9):
        for k in (-2, -1, 0, 1, 2):
            edges += ['e%d' % (base + k), 'e-%d' % (base + k)]
    mants = [lex for lex, st in lexs if st in DECIMAL and len(lex) <= (3 if quick else 4)]
    for lex in mants:
        for ex in edges:
            both(list(lex) + list(ex.encode()), 8, [0, ctx.rnd.choice([1, 2, 3]), ctx.rnd.choice(precs_all)])
        if len(batch) >= BATCH:
            yield batch
            batch = []
    ctx.coverage['edge_exponent_lexemes'] = len(mants) * len(edges)
    for b in sorted(repo_inputs()):
        for p in precs_all:
            if NUM_RE.match(b):
                add('Number', b, p)
            if DEC_RE.match(b):
                add('Decimal', b, p)
    for (fn, lx, p) in sorted(pred):       # replay every behaviour of the design models on the real functions
        add(fn, lx, p)
    for c in vlib.known_cases('C08'):
        add(c['fn'], c['in'].encode('latin1') if isinstance(c['in'], str) else c['in'], c['prec'])
    yield batch


def run_cases(ctx, exe, cases, tag):
    cin = ctx.path('run', tag + '-cases.ndjson')
    tout = ctx.path('run', tag + '-trace.ndjson')
    with open(cin, 'w') as f:
        for c in cases:
            f.write(json.dumps(c, separators=(',', ':')) + '\n')
    vlib.run([exe, cin, tout], timeout=1800)
    return [l.rstrip('\n') for l in open(tout)]


def ident(c):
    return dict(fn=c['fn'], prec=c['prec'], **{'in': bytes(c['in']).decode('latin1')})


def validate(ctx, exe, cases, tag):
    lines = run_cases(ctx, exe, cases, tag)
    if len(lines) != len(cases):
        raise vlib.Infra('harness wrote %d lines for %d cases' % (len(lines), len(cases)))
    accepted, rejects = vlib.tlc_trace(ctx, 'C08Trace', 'C08Trace.cfg', lines)
    return lines, accepted, rejects


def _emitted(r):
    pred = {}
    for m in re.finditer(r'<<\s*"OUT",\s*(<<[^>]*>>),\s*(-?\d+),\s*(<<[^>]*>>)\s*>>', r['out'], re.S):
        pred[(bytes(vlib.tla_seq_to_list(m.group(1).replace('\n', ' '))), int(m.group(2)))] = \
            bytes(vlib.tla_seq_to_list(m.group(3).replace('\n', ' ')))
    return pred


def design_model(ctx):
    """(MC) D => A for the transcriptions of Decimal and Number; returns
    {(fn, lexeme bytes, prec): model output bytes} = every finished behaviour of the design models"""
    tier = 'quick' if ctx.quick() else 'thorough'
    r = vlib.tlc_mc(ctx, 'DecimalModel', 'DecimalModel_%s.cfg' % tier, workers=8, heap='6g', timeout=3000)
    ctx.coverage['decimal_design_model_states'] = r['distinct']
    pd = _emitted(r)
    r = vlib.tlc_mc(ctx, 'NumberModel', 'NumberModel_%s.cfg' % tier, workers=8, heap='6g', timeout=3000)
    ctx.coverage['number_design_model_states'] = r['distinct']
    pn = _emitted(r)
    if not pd or not pn:
        raise vlib.Infra('design model emitted no behaviours')
    # the old (pre ce8ac76) carry line must still be a design-level counterexample: guards against a vacuous DoneOK
    r2 = vlib.tlc(ctx, 'DecimalModel', 'DecimalModel_oldcarry.cfg', workers=4, heap='3g', timeout=900)
    if 'DoneOK' not in r2['invariant_violations']:
        raise vlib.Infra('DecimalModel with OldCarry=TRUE should violate DoneOK (vacuity guard)')
    pred = {('Decimal',) + k: v for k, v in pd.items()}
    pred.update({('Number',) + k: v for k, v in pn.items()})
    return pred


def run(ctx):
    exe = vlib.build_harness(ctx, 'c08')
    pred = design_model(ctx)
    nontrivial = set()
    samples, drift = [], []
    total = accepted_total = replayed = nrej = nrepro = 0
    for bi, cases in enumerate(case_stream(ctx, pred)):
        lines, accepted, rejects = validate(ctx, exe, cases, 'b%d' % bi)
        total += len(lines)
        accepted_total += accepted
        for i, l in enumerate(lines):
            e = json.loads(l)
            if (e['fn'], bytes(e['in']), e['prec']) in pred:
                if not e['panic'] and bytes(e['out']) != pred[(e['fn'], bytes(e['in']), e['prec'])] and len(drift) < 20:
                    drift.append(dict(fn=e['fn'], prec=e['prec'], model=pred[(e['fn'], bytes(e['in']), e['prec'])].decode('latin1'),
                                      real=bytes(e['out']).decode('latin1'), **{'in': bytes(e['in']).decode('latin1')}))
            if e['out'] == e['in']:
                continue                                     # trivial
            nontrivial.add(hash((e['fn'], bytes(e['in']), e['prec'])))
            if len(samples) < 6 and i % 9973 == 0:
                samples.append(dict(fn=e['fn'], prec=e['prec'], **{'in': bytes(e['in']).decode('latin1')},
                                    out=bytes(e['out']).decode('latin1')))
        for c in cases:
            if (c['fn'], bytes(c['in']), c['prec']) in pred:
                replayed += 1
        # every rejected call is re-run alone (fresh process) and re-validated before it counts
        if rejects:
            bad = sorted(set(i for i, _ in rejects))
            nrej += len(bad)
            why = {}
            for i, w in rejects:
                why.setdefault(i, []).append(w)
            sub = [dict(cases[i], id=k) for k, i in enumerate(bad[:400])]
            lines2, acc2, rej2 = validate(ctx, exe, sub, 'rerun%d' % bi)
            still = sorted(set(k for k, _ in rej2))
            nrepro += len(still)
            for k in still:
                c = cases[bad[k]]
                e = json.loads(lines2[k])
                desc = '%s(%r, %d) = %r rejected by %s' % (c['fn'], bytes(c['in']).decode('latin1'), c['prec'],
                                                         bytes(e['out']).decode('latin1') if not e['panic'] else 'PANIC',
                                                         '/'.join(why[bad[k]]))
                ctx.report(ident(c), desc, replay_obj=e)
            if len(still) < min(len(bad), 400):
                raise vlib.Infra('%d rejections did not reproduce in isolation' % (min(len(bad), 400) - len(still)))
        del lines, cases
    ctx.coverage['rejections'] = nrej
    ctx.coverage['rejections_reproduced'] = nrepro
    ctx.coverage['design_model_behaviours_replayed'] = replayed
    ctx.coverage['design_model_drift'] = drift        # information only: the model no longer describes the code
    if drift:
        vlib.log('DRIFT: a design model (DecimalModel/NumberModel) and the real function differ on %d replayed behaviours (information, not a verdict)' % len(drift))
    ctx.coverage.update(dict(
        traces_validated_against_impl=accepted_total,
        evaluations=total,
        distinct_nontrivial=len(nontrivial),
        rule='every lexeme of the number grammar up to the exhaustive length bound over digits {0,1,4,5,9} '
             '(TLC state dump of NumGen; all 22 precisions up to length %d, a seeded choice of 3-4 precisions per lexeme above), '
             'lexemes met along TLC -simulate walks to length 40, every finished behaviour of the Decimal design model, and the '
             'repository corpus/test inputs; a case is (fn, lexeme, precision); '
             'non-trivial = the helper returned bytes different from its input' % (4 if ctx.quick() else 6),
        samples=samples,
        exhaustive=True,
        exhaustive_bound='all lexemes with length <= %s over {0,1,4,5,9,+,-,.,e}' % ('6' if ctx.quick() else '7'),
    ))
    ctx.assumptions += ['TLC evaluates NumVal.NumberOK/DecimalOK (BigNat digit arithmetic) as the meaning of a lexeme',
                        'each call uses a fresh guarded buffer (guard bytes both sides, cap==len)']


def replay(ctx, obj):
    exe = vlib.build_harness(ctx, 'c08')
    c = obj['case']
    case = dict(id=0, fn=c['fn'], prec=c['prec'], **{'in': list(c['in'].encode('latin1'))})
    lines, accepted, rejects = validate(ctx, exe, [case], 'replay')
    print(lines[0])
    if rejects:
        print('VIOLATION property=C08 replay=%s' % 'given')
        return 1
    return 0


META = dict(
    category='model_checking',
    text='TLC enumerates the number grammar exhaustively up to the length bound (generator automaton NumGen, design '
         'invariants of the value relation checked in every state), model-checks implementation-shaped transcriptions of '
         'minify.Decimal and minify.Number against the relation (D => A, with a wrong-design vacuity guard) and replays every '
         'finished behaviour of those models on the real functions (0 drift expected), and evaluates the TLA+ relation '
         'NumberOK/DecimalOK (exact rational equality via digit-sequence arithmetic; half-ulp bound for precision>0; grammar; '
         'length; guard bytes) on the recorded result of every real call. Exhaustive within the bound; random walks, '
         'edge exponents at the machine-integer limits and the repository corpus beyond it.',
    design_ref='DESIGN.md sections 4 (C08) and 10.8',
    note='Trusted: TLC, spec/NumVal.tla + BigNat.tla as the meaning of a number lexeme; harness guard-buffer probe for '
         'out-of-slice writes. Beyond the exhaustive bound coverage is sampled (TLC -simulate, edge-exponent family).',
    technique='TLA+ generator automaton + design models (Decimal/Number transcriptions) + TLC trace validation of the value relation',
)
