"""C17  Built-in replacement tables agree with the standards.

MC/GEN: spec/TablesMC.tla model-checks the internal consistency of the standards transcription
        (spec/Tables.tla) and of the text operators (spec/TableText.tla), and writes the probe
        universe (every element / attribute / unit / colour name of the standards' side).
RUN   : harness/cmd/c17 dumps EVERY entry of the built-in tables of the real code (exported maps,
        verif-tagged read-only accessors, perfect-hash tables through ToHash/String) and probes
        every name of the universe and of the tables black-box through the public minifiers.
TV    : spec/TableAudit.tla -- one invariant per entry kind (EntityOK, ColourOK, BooleanAttrOK,
        UrlAttrOK, RawTagOK, BlockTagOK, ZeroUnitOK, + HashOK, JsMimeOK, SvgColourAttrOK and their
        probe forms) evaluated by TLC on every line.
A rejected line is re-run alone in a fresh process and re-validated before it counts.
"""
import json
import os
import re
import subprocess

import vlib

CLAUSES = {
    'EntityOK/name': 'EntityOK: name is not a named character reference of the standard',
    'EntityOK/attr': "EntityOK: replacement does not decode to the reference's text (attribute value)",
    'EntityOK/text': "EntityOK: replacement does not decode to the reference's text (text)",
    'EntityOK/markup': 'EntityOK: literal markup character as replacement in text',
    'EntityOK/rev': 'EntityOK: reverse entry does not decode to the character it replaces',
    'SideProbe/before': 'BlockTagOK(probe): blank before an atomic inline-level box (inline-block / replaced element) dropped',
    'SideProbe/after': 'BlockTagOK(probe): blank after an atomic inline-level box (inline-block / replaced element) dropped',
    'RawAfterProbe': 'RawTagOK(probe): text after an element, inside a non-raw parent, copied as raw text',
    'UrlWsProbe': 'UrlAttrOK(probe): whitespace inside the value of a URL-valued attribute changed (another URL)',
    'RevProbe/text': 'EntityOK(probe): numeric reference to a reverse-mapped character decodes differently',
    'RevProbe/raw': 'EntityOK(probe): a character XML does not allow is written literally',
    'EntProbe/parse': 'EntityOK(probe): output no longer parses',
    'EntProbe/text': 'EntityOK(probe): decoded text differs',
    'EntProbe/attr': 'EntityOK(probe): decoded attribute value differs',
    'ColourOK/keyword': 'ColourOK: keyword is not a CSS named colour',
    'ColourOK/value': "ColourOK: hex value is not the keyword's sRGB colour",
    'ColourProbe': 'ColourOK(probe): value rewritten to a different colour / non-colour rewritten to a colour',
    'SELFTEST/colour': 'SELFTEST: Tables.CssColours disagrees with x/image/colornames',
    'SvgColourAttrOK': 'ColourOK: SVG attribute treated as colour-valued is not a <color>/<paint> attribute',
    'SvgAttrProbe': 'ColourOK(probe): colour rewritten in a non-colour SVG attribute',
    'BooleanAttrOK': 'BooleanAttrOK: not a boolean attribute of the HTML standard',
    'UrlAttrOK': 'UrlAttrOK: not a URL-valued attribute of the HTML standard',
    'BoolProbe': 'BooleanAttrOK(probe): value dropped from a non-boolean attribute',
    'UrlProbe': 'UrlAttrOK(probe): URL rewrite applied to a non-URL attribute',
    'RawTagOK': 'RawTagOK: element treated as raw text is not a raw-text element',
    'RawProbe': 'RawTagOK(probe): content of a non-raw-text element copied as raw text',
    'BlockTagOK': 'BlockTagOK: whitespace-dropping element is not block-level / table part / line break / not rendered',
    'TagProbe': 'BlockTagOK(probe): whitespace dropped next to an inline-level element',
    'ZeroUnitOK': 'ZeroUnitOK: unit is neither a length nor an angle unit',
    'UnitProbe': 'ZeroUnitOK(probe): unit dropped from a zero that is neither length nor angle',
    'JsMimeOK': 'JsMimeOK: not a JavaScript MIME type essence',
    'HashOK/tohash': "HashOK: ToHash(name) is not the name's hash",
    'HashOK/string': 'HashOK: Hash.String() is not the declared name',
    'HashOK/length': 'HashOK: hash does not encode the name length',
    'HashOK/collision': 'HashOK: two names share a hash',
    'HashOK/duplicate': 'HashOK: name occurs twice',
}

DIRECT = ('entity', 'reventity', 'colourname', 'colourhex', 'tagtrait', 'attrtrait', 'zerounit', 'jsmime',
          'svgcolourattr', 'hash')
PROBES = ('tagprobe', 'sideprobe', 'rawafter', 'rawprobe', 'attrprobe', 'unitprobe', 'colourprobe', 'svgattrprobe', 'entprobe', 'revprobe')


def subject(e):
    """The table entry (or probed name) a line is about: the unit the property quantifies over."""
    k = e['kind']
    if k == 'entity':
        return '%s.EntitiesMap[%s]' % (e['table'], e['name'])
    if k == 'reventity':
        return '%s.%s[%d]' % (e['table'], e.get('map', 'TextRevEntitiesMap'), e['ch'])
    if k == 'colourname':
        return 'css.ShortenColorName[%s]' % e['name']
    if k == 'colourhex':
        return 'css.ShortenColorHex[%s]' % bytes(e['hex']).decode('latin1')
    if k == 'tagtrait':
        return 'html.tagMap[%s]' % e['tag']
    if k == 'attrtrait':
        return 'html.attrMap[%s]' % e['attr']
    if k == 'zerounit':
        return 'css.optionalZeroDimension[%s]' % e['unit']
    if k == 'jsmime':
        return 'html.jsMimetypes[%s]' % e['mime']
    if k == 'svgcolourattr':
        return 'svg.colorAttrMap[%s]' % e['attr']
    if k == 'hash':
        return '%s.Hash[%s]' % (e['pkg'], e['cname'])
    if k in ('tagprobe', 'rawprobe', 'sideprobe', 'rawafter'):
        return 'element:%s' % e['tag']
    if k == 'attrprobe':
        return 'attribute:%s' % e['attr']
    if k == 'unitprobe':
        return 'unit:%s' % e['unit']
    if k == 'colourprobe':
        return 'colour:%s' % e['inlow']
    if k == 'svgattrprobe':
        return 'svgattr:%s' % e['attr']
    if k == 'entprobe':
        return 'entity:%s:&%s' % (e['lang'], e['name'])
    if k == 'refcolour':
        return 'refcolour:%s' % e['name']
    if k == 'revprobe':
        return 'revchar:%s:%s:%d' % (e['lang'], e['where'], e['ch'])
    if k == 'tablenote':
        return 'note:%s.%s' % (e['table'], e['map'])
    raise vlib.Infra('unknown line kind %r' % k)


def goroot():
    r = vlib.run(['go', 'env', 'GOROOT'], env=vlib.goenv(), timeout=60)
    p = r.stdout.strip()
    if not os.path.exists(os.path.join(p, 'src', 'html', 'entity.go')):
        raise vlib.Infra('standard library source (html/entity.go) not found under GOROOT=%r' % p)
    return p


def gen_universe(ctx):
    """(MC/GEN) model-check the standards transcription; TLC writes the probe universe."""
    path = ctx.path('gen', 'universe.json')
    r = vlib.tlc_mc(ctx, 'TablesMC', 'TablesMC.cfg', workers=2, env={'C17_UNIVERSE': path}, timeout=900)
    if not os.path.exists(path):
        raise vlib.Infra('TablesMC did not write the probe universe')
    u = json.load(open(path))
    return path, u, r


def run_harness(ctx, exe, universe, tier, tag, cids=None):
    out = ctx.path('run', tag + '.ndjson')
    args = [exe, vlib.REPO, universe, out, tier]
    if cids is not None:
        flt = ctx.path('run', tag + '.filter')
        with open(flt, 'w') as f:
            for c in cids:
                f.write(c + '\n')
        args.append(flt)
    env = vlib.goenv()
    env['C17_GOROOT'] = ctx.c17_goroot
    vlib.run(args, timeout=1800, env=env)
    return [l.rstrip('\n') for l in open(out) if l.strip()]


def refcolour_lines():
    """Independent machine source for the colour transcription: golang.org/x/image/colornames
    (SVG 1.1 names), read from the offline module cache.  Absent => the self-test is skipped."""
    base = '/root/go/pkg/mod/golang.org/x'
    if not os.path.isdir(base):
        return []
    for d in sorted(os.listdir(base)):
        p = os.path.join(base, d, 'colornames', 'table.go')
        if d.startswith('image@') and os.path.exists(p):
            out = []
            for m in re.finditer(r'"([a-z]+)":\s*color\.RGBA\{0x([0-9a-f]{2}), 0x([0-9a-f]{2}), 0x([0-9a-f]{2}), 0xff\}', open(p).read()):
                out.append(json.dumps(dict(kind='refcolour', cid='refcolour|' + m.group(1), name=m.group(1),
                                           rgb=[int(m.group(i), 16) for i in (2, 3, 4)]), separators=(',', ':')))
            return out
    return []


def validate(ctx, lines):
    """(TV) hash lines carry state (distinctness) and go to one TLC run; the rest is sharded."""
    objs = [json.loads(l) for l in lines]
    hidx = [i for i, e in enumerate(objs) if e['kind'] == 'hash']
    oidx = [i for i, e in enumerate(objs) if e['kind'] != 'hash']
    rejects = []
    accepted = 0
    if hidx:
        a, rj = vlib.tlc_trace(ctx, 'TableAudit', 'TableAudit.cfg', [lines[i] for i in hidx], shards=1, timeout=1200)
        accepted += a
        rejects += [(hidx[k], w) for k, w in rj]
    if oidx:
        a, rj = vlib.tlc_trace(ctx, 'TableAudit', 'TableAudit.cfg', [lines[i] for i in oidx], timeout=3000,
                               min_per_shard=1500)
        accepted += a
        rejects += [(oidx[k], w) for k, w in rj]
    return objs, accepted, sorted(rejects)


def describe(e, why):
    w = CLAUSES.get(why, why)
    k = e['kind']
    if k in PROBES:
        return '%s: %r -> %r [%s]' % (subject(e), e.get('in'), e.get('out'), w)
    d = {x: e[x] for x in e if x not in ('cid', 'id', 'kind')}
    for f in ('hex',):
        if f in d:
            d[f] = bytes(d[f]).decode('latin1')
    for f in ('a', 't', 'r'):
        if f in d:
            d[f] = bytes(d[f]['b']).decode('latin1')
    return '%s %s [%s]' % (subject(e), json.dumps(d, sort_keys=True), w)


def confirm_and_report(ctx, exe, universe, objs, rejects):
    """Every rejected line is re-run alone (fresh process, only those cids) and re-validated."""
    if not rejects:
        return 0, 0
    bad = {}
    for i, w in rejects:
        bad.setdefault(objs[i]['cid'], set()).add(w)
    selftest = [c for c, ws in bad.items() if any(w.startswith('SELFTEST') for w in ws)]
    if selftest:
        raise vlib.Infra('standards transcription disagrees with the independent colour source: %s' % selftest[:5])
    cids = sorted(bad)
    lines2 = run_harness(ctx, exe, universe, 'thorough', 'rerun', cids)
    if len(lines2) != len(cids):
        raise vlib.Infra('re-run produced %d lines for %d rejected cases' % (len(lines2), len(cids)))
    objs2, _, rej2 = validate(ctx, lines2)
    groups = {}
    for i, w in rej2:
        e = objs2[i]
        if w not in bad.get(e['cid'], ()):
            continue                      # a different clause than in the first run: not reproduced
        groups.setdefault((subject(e), w), []).append(e)
    reproduced = set()
    for (subj, w), es in sorted(groups.items()):
        reproduced.update(e['cid'] for e in es)
        ident = dict(entry=subj, clause=w)
        desc = describe(es[0], w) + (' (+%d more probes of the same entry)' % (len(es) - 1) if len(es) > 1 else '')
        ctx.report(ident, desc, replay_obj=dict(cids=[e['cid'] for e in es], clause=w,
                                                 witnesses=[dict(cid=e['cid'], **{'in': e.get('in'), 'out': e.get('out')}) for e in es[:8]]))
    unrepro = [c for c in cids if c not in reproduced]
    if unrepro:
        raise vlib.Infra('rejections that did not reproduce in isolation: %s' % unrepro[:5])
    return len(cids), len(reproduced)


def run(ctx):
    ctx.level = 'exploration'
    exe = vlib.build_harness(ctx, 'c17')
    ctx.c17_goroot = goroot()
    universe, u, mc = gen_universe(ctx)
    lines = run_harness(ctx, exe, universe, ctx.tier, 'main')
    have = set(json.loads(l)['cid'] for l in lines)
    # pinned witnesses of known findings are always replayed, also those of thorough-only probe contexts
    pinned = [c['cid'] for c in vlib.known_cases('C17') if c['cid'] not in have]
    if pinned:
        extra = run_harness(ctx, exe, universe, 'thorough', 'pinned', pinned)
        if len(extra) != len(pinned):
            # a pinned witness about a table entry that no longer exists (entry removed by a fix): nothing to replay
            gone = sorted(set(pinned) - set(json.loads(l)['cid'] for l in extra))
            if any(not g.split('|')[0] in DIRECT for g in gone):
                raise vlib.Infra('pinned probe witnesses no longer produced by the driver: %s' % gone[:5])
            vlib.log('note: pinned table entries no longer present (removed by a fix?):', gone)
        lines += extra
    ref = refcolour_lines()
    lines += ref
    objs, accepted, rejects = validate(ctx, lines)
    nrej, nrepro = confirm_and_report(ctx, exe, universe, objs, rejects)

    per_kind = {}
    for e in objs:
        per_kind[e['kind']] = per_kind.get(e['kind'], 0) + 1
    notes = [e for e in objs if e['kind'] == 'tablenote']
    for e in notes:
        vlib.log('NOTE: table entry not evaluated by the source reader (not audited):', e['table'], e['map'], e['text'], '-', e['why'])
    ctx.coverage['table_entries_not_evaluated'] = [dict(map='%s.%s' % (e['table'], e['map']), text=e['text']) for e in notes]
    entries = set()
    nontrivial = set()
    for e in objs:
        k = e['kind']
        if k in DIRECT:
            entries.add(subject(e))
            nontrivial.add(e['cid'])                     # every table entry defines a rewrite
        elif k in PROBES and e.get('out') is not None and e.get('out') != e.get('in') and not e.get('err'):
            nontrivial.add(e['cid'])                     # the minifier rewrote the probe
    samples = []
    for want in ('entity', 'colourname', 'tagtrait', 'attrtrait', 'tagprobe', 'entprobe', 'colourprobe', 'unitprobe'):
        for e in objs:
            if e['kind'] == want and (want in DIRECT or e.get('out') != e.get('in')):
                s = {x: e[x] for x in e if x not in ('id', 'inflat', 'flat', 'intext', 'outtext', 'inattr', 'outattr')}
                for f in ('a', 't'):
                    if f in s:
                        s[f] = bytes(s[f]['b']).decode('latin1')
                for f in ('hex', 'inval', 'outval', 'inb', 'outb', 'inraw', 'outraw'):
                    if f in s:
                        s[f] = bytes(s[f]).decode('latin1')
                s.pop('ref', None)
                samples.append(s)
                break
    ctx.coverage.update(dict(
        traces_validated_against_impl=accepted,
        evaluations=len(lines),
        distinct_nontrivial=len(nontrivial),
        table_entries_audited=len(entries),
        lines_per_kind=per_kind,
        rejections=nrej,
        rejections_reproduced=nrepro,
        tables_mc_states=mc['distinct'],
        tables_mc_transitions=mc['generated'],
        universe=dict(elements=len(u['elements']), attributes=len(u['attrs']), units=len(u['units']),
                      colours=len(u['colours'])),
        colour_selftest_entries=len(ref),
        rule='EVERY entry of html.EntitiesMap/TextRevEntitiesMap, xml.EntitiesMap/TextRevEntitiesMap, css.ShortenColorHex/'
             'ShortenColorName/optionalZeroDimension, html tagMap/attrMap/jsMimetypes, svg colorAttrMap and every constant of '
             'the html/css/svg perfect-hash tables is dumped (one line each) and judged by TLC; every name of the standards\' '
             'universe (TLC: TablesMC) and of the tables is additionally probed through the public minifiers (quick: one '
             'configuration, 2-3 contexts per name; thorough: all contexts x configurations). distinct = distinct line '
             'identity (cid); non-trivial = a table entry (it defines a rewrite) or a probe whose output differs from its '
             'input. Known findings keep their entries in the audit (nothing is excluded from generation).',
        samples=samples,
        exhaustive=True,
        exhaustive_bound='all entries of all listed tables; all names of Tables.tla crossed with the probe contexts of the tier',
    ))
    ctx.assumptions += [
        'spec/Tables.tla is a faithful transcription of the HTML Living Standard (rendering UA style sheet, element/attribute '
        'indices, 13.1.2, 13.2.5.80), CSS Color 4 named colours (cross-checked against golang.org/x/image/colornames: %d '
        'entries), CSS Values 4 units, XML 1.0 4.6, MIME Sniffing JavaScript MIME types' % len(ref),
        'reference entity decoding: Go standard library html.UnescapeString, cross-checked per name against '
        'golang.org/x/net/html.UnescapeString; probes are projected by golang.org/x/net/html (tokenizer and parser) and '
        'encoding/xml; x/net/html does not decode a single-digit decimal reference without semicolon and decodes "&#x;" to '
        'U+FFFD (contexts that depend on this are not generated)',
        'raw-text clause: elements the HTML parser itself tokenizes as raw text (xmp, iframe, noembed, noframes, plaintext, '
        'noscript) and the foreign-content roots svg/math count as raw-text elements; noscript and option/optgroup count as '
        '"not rendered" for the whitespace clause (see Tables.tla)',
    ]


def replay(ctx, obj):
    exe = vlib.build_harness(ctx, 'c17')
    ctx.c17_goroot = goroot()
    universe, u, mc = gen_universe(ctx)
    case = obj['case']
    detail = obj.get('detail') or {}
    cids = detail.get('cids') or []
    if not cids:
        print('replay file has no cids')
        return 2
    lines = run_harness(ctx, exe, universe, 'thorough', 'replay', cids)
    objs, accepted, rejects = validate(ctx, lines)
    rc = 0
    for i, w in rejects:
        e = objs[i]
        print('rejected:', describe(e, w))
        if w == case['clause'] and subject(e) == case['entry']:
            rc = 1
    for l in lines[:4]:
        print(l[:600])
    if rc:
        print('VIOLATION property=C17 replay=%s' % 'given')
    else:
        print('not reproduced: %d lines re-run, %d accepted' % (len(lines), accepted))
    return rc


META = dict(
    category='exploration',
    text='Exhaustive audit of a finite space: every entry of every built-in rewrite table of the real code (about 1,100 '
         'entity entries, 130 colour entries, 280 element/attribute/unit/mime traits, 800 perfect-hash names) is dumped and '
         'every name of the standards\' side is probed through the public minifiers; TLC evaluates one TLA+ invariant per '
         'entry kind (EntityOK, ColourOK, BooleanAttrOK, UrlAttrOK, RawTagOK, BlockTagOK, ZeroUnitOK, HashOK, ...) of '
         'spec/TableAudit.tla against the standards transcription spec/Tables.tla on every line. The transcription itself '
         'is model-checked for internal consistency (spec/TablesMC.tla) and is the generator of the probe universe.',
    design_ref='DESIGN.md section 4, C17',
    note='Trusted: spec/Tables.tla as transcription of the standards (colour list cross-checked against '
         'golang.org/x/image/colornames; a disagreement is exit 2), Go stdlib + x/net/html entity decoding, x/net/html and '
         'encoding/xml as projections, TLC. Judgement calls documented in Tables.tla: parser-level raw-text elements and '
         'svg/math accepted as raw text; noscript, option, optgroup accepted as not rendered. The trim trait, '
         'PropertyOverrides and the parse module\'s own raw-text list are outside the property statement and not audited.',
    technique='TLC trace validation of a complete table dump + black-box probes against a TLA+ standards transcription',
)
