"""C18  Data URI and media type helpers preserve what they encode.

MC : DataUriGen    - generator of data URIs (media type list x {;base64, none} x payloads over a small alphabet)
                     x kinds of registered minifier.  Invariants: the design model DataUriDesign.Design (helper as
                     intended, with the proposed fixes) satisfies the abstract relation DataUriOK (D => A), is
                     idempotent, the TLA+ codecs round-trip, and the transcription of the pinned code
                     (DataUriAsIs) violates the relation only on the narrow construct of the open finding K4;
                     the pre-fix transcription is kept as a wrong-design guard (ASSUMEs).
     DataUriHdrGen - the same for the header syntax space (token sequences between "data:" and the comma).
     MediatypeGen  - generator of media type strings (quotes, backslash, blanks, separators, both cases) with the
                     design models of minify.Mediatype (MtMachine: AsIs = current code, correct everywhere;
                     OldAsIs = pre-fix code, wrong only on the K6 constructs: wrong-design guard) and sanity invariants of MediatypeOK.
GEN: state dumps of the three generators (exhaustive within the bound), TLC -simulate walks over all 256 byte
     values to length 48, every byte value 0..255 in several spellings, malformed forms, the repository's tests.
RUN: harness/cmd/c18 calls the real minify.DataURI (no minifier / identity / shrinking / growing stub / real css,
     json, svg minifier, registered literally, for text/plain, and via patterns), minify.Mediatype, and both again
     through the CSS (url()) and HTML (src=, type=) minifiers.
TV : C18Trace evaluates DataUriWhy / MediatypeWhy (spec/DataUri.tla) on every recorded call (verdict) and compares
     every call with the as-is transcriptions (drift information).  Cases are streamed in batches.
"""
import base64
import json
import os
import re

import vlib

WS = b' \t\n\r\f'
ALNUM = set(b'abcdefghijklmnopqrstuvwxyzABCDEFGHIJKLMNOPQRSTUVWXYZ0123456789')
# RFC 2396 reserved + unreserved (used by the python *renderer* of validly encoded inputs only;
# the relation's own copy lives in spec/DataUri.tla).  The renderer additionally escapes "+" and "&"
# (always permitted) so that those payload bytes are exercised outside the pinned known constructs.
URIC_LIT = (set(b";/?:@=$,-_.!~*'()") | ALNUM)


def B(s):
    return list(s if isinstance(s, (bytes, bytearray)) else s.encode('latin1'))


def S(b):
    return bytes(b).decode('latin1')


def load_mts():
    """the media type list of the generator, read from spec/DataUriGen.tla (single source)"""
    txt = open(os.path.join(vlib.SPEC, 'DataUriGen.tla')).read()
    blk = txt[txt.index('MT == <<') + len('MT == <<'):]
    blk = blk[:blk.index('(*')]
    mts = []
    for m in re.finditer(r'<<([0-9, ]*)>>', blk):
        mts.append(bytes(int(x) for x in m.group(1).split(',') if x.strip()))
    assert len(mts) >= 10, mts
    return mts


def load_hdr_tokens():
    """token and payload tables of the header generator, read from spec/DataUriHdrGen.tla"""
    txt = open(os.path.join(vlib.SPEC, 'DataUriHdrGen.tla')).read()

    def block(name, until):
        b = txt[txt.index(name + ' == <<') + len(name) + 6:]
        b = b[:b.index('\n' + until)]
        return [bytes(int(x) for x in m.group(1).split(',') if x.strip()) for m in re.finditer(r'<<([0-9, ]*)>>', b)]
    tok, pls = block('Tok', 'Payloads'), block('Payloads', 'Header')
    assert len(tok) >= 8 and len(pls) >= 3, (tok, pls)
    return tok, pls


def pct_min(p):
    return b''.join(bytes([c]) if c in URIC_LIT else b'%%%02X' % c for c in p)


def pct_all(p):
    return b''.join(b'%%%02x' % c for c in p)


def render(mts, mt, enc, pay, mode):
    """mode raw: pay is the text after the comma as is; enc: pay is the decoded payload, validly
    encoded by this renderer (base64 / minimal escapes); all: every byte escaped, lower-case hex"""
    head = b'data:' + mts[mt - 1] + (b';base64' if enc else b'')
    if mode == 'raw':
        return head + b',' + bytes(pay)
    if enc:
        return head + b',' + base64.b64encode(bytes(pay))
    return head + b',' + (pct_min(pay) if mode == 'enc' else pct_all(pay))


# ---- known-defect constructs (narrow, syntactic, decided on the INPUT only) -------------------
def split_uri(u):
    if not u.startswith(b'data:') or b',' not in u:
        return None
    comma = u.index(b',')
    head, raw = u[5:comma], u[comma + 1:]
    m = re.search(rb';[ \t\n\r\f]*base64[ \t\n\r\f]*$', head)
    return (head[:m.start()] if m else head), bool(m), raw


def excluded_datauri(u, reg):
    """name of the pinned known-finding construct this input belongs to, or None.
    Only K4 is left (K1, K2, K3, K5, K6 are fixed in /repo and generated again)."""
    sp = split_uri(u)
    if sp is None:
        return None
    mt, b64, raw = sp
    segs = [s.strip(WS) for s in mt.split(b';')]
    if any(x.strip(WS) == b'base64' for s in segs for x in s.split(b'=')):
        return 'K4 base64 token that is not the final ;base64 marker'
    return None


def excluded_mediatype(b):
    return None          # nothing excluded any more (K6a / K6b fixed by 0042ee0)


# ---- registrations --------------------------------------------------------------------------------
TYPE_UNIVERSE = ['text/plain', 'text/css', 'text/x', 'application/json', 'image/svg+xml']


def reg(how, key, stub):
    return dict(how=how, key=key, stub=stub)


def covers(regs):
    out = []
    for r in regs:
        if r['how'] == 'literal':
            out.append(r['key'])
        else:
            out += [t for t in TYPE_UNIVERSE if re.search(r['key'], t)]
    return sorted(set(out))


def low_type(u):
    sp = split_uri(u)
    if sp is None:
        return None
    t = sp[0].split(b';')[0].strip(WS).lower().decode('latin1')
    return t or 'text/plain'


STUBS_FOR = {
    'text/x': [[reg('literal', 'text/x', 'id')], [reg('literal', 'text/x', 'shrink')],
               [reg('literal', 'text/x', 'grow64')], [reg('regexp', '^text/[a-z]+$', 'shrink')],
               [reg('literal', 'text/x', 'grow3')]],
    'text/plain': [[reg('literal', 'text/plain', 'shrink')], [reg('regexp', '^text/[a-z]+$', 'id')],
                   [reg('literal', 'text/plain', 'grow64')]],
    'text/css': [[reg('literal', 'text/css', 'css')], [reg('regexp', 'css$', 'css'), reg('literal', 'text/x', 'id')]],
    'application/json': [[reg('literal', 'application/json', 'json')], [reg('regexp', '[/+]json$', 'json')]],
    'image/svg+xml': [[reg('literal', 'image/svg+xml', 'svg')]],
}

REAL_PAYLOADS = {
    'text/css': [b'a { color : red }', b'a{b:url(data:text/css;base64,YSB7IGNvbG9yIDogcmVkIH0=)}', b'@media x { a { margin : 0px } }',
                 b'a{b:"<#%>"}', b'', b'/* c */', b'a{color:#ff0000;background:url( "x y.png" )}'],
    'application/json': [b'{ "a" : [ 1 , 2.0 ] }', b' [1.0, 2e+1, "x y"] ', b'{"k":"<#%&+>"}', b'[', b'nul', b''],
    'image/svg+xml': [b'<svg xmlns="http://www.w3.org/2000/svg"> <path d="M 0 0 L 10 10"/> </svg>',
                      b'<svg><rect fill="#ff0000" width="10px"/></svg>', b'<svg', b''],
}


# VERIF_C18_INCLUDE=K1,K2,... generates the named known constructs anyway (used to validate proposed fixes in a worktree)
INCLUDE_KNOWN = set(x.strip()[:2] for x in os.environ.get('VERIF_C18_INCLUDE', '').split(',') if x.strip())


class Cases:
    """collects cases in batches; dedup is per family (small sets), excluded constructs are counted"""

    def __init__(self, sink, batch=250000):
        self.sink = sink
        self.batch = batch
        self.cases = []
        self.seen = set()
        self.excluded = {}
        self.total = 0

    def family(self):
        """start a new family: forget the dedup keys of the previous one (bounded memory)"""
        self.seen = set()

    def add(self, fn, via, data, regs=(), quote=''):
        data = bytes(data)
        regs = list(regs)
        k = hash((fn, via, data, quote, json.dumps(regs, sort_keys=True)))
        if k in self.seen:
            return
        self.seen.add(k)
        why = excluded_datauri(data, regs) if fn == 'DataURI' else excluded_mediatype(data)
        if why and why[:2] in INCLUDE_KNOWN:
            why = None          # development switch: generate the construct anyway (to validate a proposed fix)
        if why:
            self.excluded[why] = self.excluded.get(why, 0) + 1
            return
        self.cases.append(dict(id=len(self.cases), fn=fn, via=via, quote=quote, reg=regs,
                               regs=[B(t) for t in covers(regs)], **{'in': B(data)}))
        if len(self.cases) >= self.batch:
            self.flush()

    def flush(self):
        if self.cases:
            self.total += len(self.cases)
            self.sink(self.cases)
            self.cases = []


def ident(c):
    return dict(fn=c['fn'], via=c['via'], quote=c.get('quote', ''),
                reg=[[r['how'], r['key'], r['stub']] for r in c.get('reg', [])],
                **{'in': S(c['in']) if not isinstance(c['in'], str) else c['in']})


def case_from_ident(i):
    regs = [reg(*r) for r in i.get('reg', [])]
    return dict(id=0, fn=i['fn'], via=i['via'], quote=i.get('quote', ''), reg=regs,
                regs=[B(t) for t in covers(regs)], **{'in': B(i['in'])})


# ---- generation -----------------------------------------------------------------------------------
def parse_gen_dump(path):
    """(mt, enc, pay) of every state in a DataUriGen dump / simulation trace file"""
    txt = open(path).read()
    mt = re.findall(r'^(?:/\\ )?mt = (\d+)', txt, re.M)
    enc = re.findall(r'^(?:/\\ )?enc = (\d+)', txt, re.M)
    pay = re.findall(r'^(?:/\\ )?pay = (<<[^>]*>>)', txt, re.M)
    if not (len(mt) == len(enc) == len(pay)):
        raise vlib.Infra('cannot parse generator states in ' + path)
    return [(int(m), int(e), tuple(vlib.tla_seq_to_list(' '.join(p.split())))) for m, e, p in zip(mt, enc, pay)]


def parse_s_dump(path):
    """(string, known-construct flag) of every state in a MediatypeGen dump / simulation trace file"""
    txt = open(path).read()
    ss = re.findall(r'^(?:/\\ )?s = (<<[^>]*>>)', txt, re.M)
    ks = re.findall(r'^(?:/\\ )?known = (TRUE|FALSE)', txt, re.M)
    if len(ss) != len(ks):
        raise vlib.Infra('cannot parse generator states in ' + path)
    return [(bytes(vlib.tla_seq_to_list(' '.join(p.split()))), k == 'TRUE') for p, k in zip(ss, ks)]


def sim_states(ctx, module, cfg, n, depth, parser, tag):
    d = os.path.dirname(ctx.path('sim-' + tag, 'x'))
    r = vlib.tlc(ctx, module, cfg, workers=1, simulate='file=%s/b,num=%d' % (d, n), depth=depth, seed=ctx.seed,
                 timeout=900)
    if r['errors'] or r['invariant_violations']:
        raise vlib.Infra('simulation of %s reported a design-level error:\n%s' % (module, r['out'][-2500:]))
    out = []
    for fn in sorted(os.listdir(d)):
        out += parser(os.path.join(d, fn))
    return out


def golit(lit):
    """value of a Go string literal (raw or interpreted) as bytes"""
    import ast
    if lit[0] == '`':
        return lit[1:-1].encode('utf-8')
    return ast.literal_eval(lit).encode('utf-8')


def repo_inputs():
    """data URIs / media types in the repository's own tests (first string of each row)"""
    uris, mts = set(), set()
    p = os.path.join(vlib.REPO, 'common_test.go')
    row = re.compile(r'\{(`[^`]*`|"(?:[^"\\]|\\.)*"), ')
    if os.path.exists(p):
        txt = open(p, encoding='utf-8').read()
        for m in row.finditer(txt[txt.find('func TestMediatype'):txt.find('func TestDataURI')]):
            mts.add(golit(m.group(1)))
        for m in row.finditer(txt[txt.find('func TestDataURI'):txt.find('func TestDecimal')]):
            uris.add(golit(m.group(1)))
    for sub, pat in (('css', rb'data:[^)"\' ]{1,200}'), ('html', rb'data:[^"\' >]{1,200}')):
        d = os.path.join(vlib.REPO, sub)
        if os.path.isdir(d):
            for fn in sorted(os.listdir(d)):
                if fn.endswith('_test.go'):
                    for m in re.finditer(pat, open(os.path.join(d, fn), 'rb').read()):
                        if b'\\' not in m.group(0) and b'`' not in m.group(0):
                            uris.add(m.group(0))
    return sorted(uris), sorted(mts)


CSS_QUOTED_OK = set(range(32, 127)) - set(b'"\\')
CSS_BARE_OK = set(range(33, 127)) - set(b'"\'()\\')
HTML_OK = set(range(32, 127)) - set(b'&')


def embed(cs, u, regs, rnd):
    """the same input through the CSS and HTML minifiers, where the host syntax can carry it verbatim"""
    u = bytes(u)
    if u != u.strip(WS) or len(u) < 6:
        return
    if all(c in CSS_QUOTED_OK for c in u):
        cs.add('DataURI', 'css', u, regs, '"')
    if all(c in CSS_BARE_OK for c in u):
        cs.add('DataURI', 'css', u, regs, '')
    if all(c in HTML_OK for c in u):
        cs.add('DataURI', 'html', u, regs, rnd.choice(['"', "'"]))


def make_cases(ctx, cs, lap):
    """generates every case into cs (batches are run and validated as they fill up)"""
    quick = ctx.quick()
    rnd = ctx.rnd
    mts = load_mts()
    # The TLC stages are independent of each other: run them side by side (one thread per module, so that no two
    # runs of the same module overlap), then generate.
    from concurrent.futures import ThreadPoolExecutor
    W = max(2, min(16, vlib.JOBS) // 2)
    vlib._speccopy(ctx)

    def stage_datauri():
        # (MC) design models against the abstract relation, exhaustive in the bound
        r1 = vlib.tlc_mc(ctx, 'DataUriGen', 'DataUriGen_quick.cfg' if quick else 'DataUriGen_thorough.cfg',
                         workers=W, heap='3g', timeout=3000)
        # (GEN) the same generator without the minifier dimension: its states are the inputs
        dump = ctx.path('gen', 'datauri')
        r2 = vlib.tlc_mc(ctx, 'DataUriGen', 'DataUriGen_gen_quick.cfg' if quick else 'DataUriGen_gen_thorough.cfg',
                         workers=W, dump=dump, timeout=1800)
        states = parse_gen_dump(dump + '.dump')
        os.remove(dump + '.dump')
        if len(states) != r2['distinct']:
            raise vlib.Infra('dump of DataUriGen has %d states, TLC reported %d' % (len(states), r2['distinct']))
        # random walks of the generator over all byte values, far beyond the exhaustive bound
        sims = sim_states(ctx, 'DataUriGen', 'DataUriGen_sim.cfg', 25 if quick else 500, 49, parse_gen_dump, 'uri')
        return r1['distinct'] + (r2['distinct'] if quick else 0), states, sims

    def stage_mediatype():
        mdump = ctx.path('gen', 'mediatype')
        r = vlib.tlc_mc(ctx, 'MediatypeGen', 'MediatypeGen_quick.cfg' if quick else 'MediatypeGen_thorough.cfg',
                        workers=W, heap='3g', dump=mdump, timeout=3000)
        mstrings = parse_s_dump(mdump + '.dump')
        os.remove(mdump + '.dump')
        if len(mstrings) != r['distinct']:
            raise vlib.Infra('dump of MediatypeGen has %d states, TLC reported %d' % (len(mstrings), r['distinct']))
        msims = sim_states(ctx, 'MediatypeGen', 'MediatypeGen_sim.cfg', 25 if quick else 500, 49, parse_s_dump, 'mt')
        return mstrings, msims

    def stage_header():
        # header syntax space: token sequences between "data:" and the comma (DataUriHdrGen: D => A, then the real code)
        hdump = ctx.path('gen', 'hdr')
        r = vlib.tlc_mc(ctx, 'DataUriHdrGen', 'DataUriHdrGen_quick.cfg' if quick else 'DataUriHdrGen_thorough.cfg',
                        workers=W, heap='3g', dump=hdump, timeout=3000)
        txt = open(hdump + '.dump').read()
        os.remove(hdump + '.dump')
        hs = re.findall(r'^/\\ hdr = (<<[^>]*>>)', txt, re.M)
        ps = re.findall(r'^/\\ pl = (\d+)', txt, re.M)
        if not (len(hs) == len(ps) == r['distinct']):
            raise vlib.Infra('dump of DataUriHdrGen has %d/%d states, TLC reported %d' % (len(hs), len(ps), r['distinct']))
        return hs, ps

    with ThreadPoolExecutor(max_workers=4) as ex:
        f_self = ex.submit(selftest, ctx, ctx.c18_pinned_lines)
        f_uri, f_mt, f_hdr = ex.submit(stage_datauri), ex.submit(stage_mediatype), ex.submit(stage_header)
        ctx.coverage['relation_selftest_lines'] = f_self.result()
        ndesign, states, sims = f_uri.result()
        mstrings, msims = f_mt.result()
        hs, ps = f_hdr.result()
    ctx.coverage['design_states_datauri'] = ndesign
    ctx.coverage['uris_enumerated'] = len(states)
    ctx.coverage['mediatypes_enumerated'] = len(mstrings)
    ctx.coverage['design_states_mediatype'] = len(mstrings)
    lap('TLC stages done: self-test, %d design states, %d URIs, %d media type strings, %d headers'
        % (ndesign, len(states), len(mstrings), len(hs)))

    ctx.coverage['header_uris_enumerated'] = len(hs)
    tok, pls = load_hdr_tokens()
    cs.family()
    for h, p in zip(hs, ps):
        u = b'data:' + b''.join(tok[t - 1] for t in vlib.tla_seq_to_list(' '.join(h.split()))) + b',' + pls[int(p) - 1]
        cs.add('DataURI', 'direct', u)
        if rnd.random() < 0.25 and low_type(u) in ('text/x', 'text/plain'):
            cs.add('DataURI', 'direct', u, STUBS_FOR[low_type(u)][rnd.randrange(2)])
        if rnd.random() < 0.05:
            embed(cs, u, [], rnd)
    del hs, ps
    lap('header generator done')

    # ---- data URIs: exhaustive set, raw and validly encoded spelling, no minifier registered
    cs.family()
    top_pay = max(len(st[2]) for st in states)
    for (mt, enc, pay) in states:
        if quick and len(pay) == top_pay and rnd.random() > 0.15:
            continue                      # quick: every state below the top length, a seeded 15% of the top length
        u = render(mts, mt, enc, pay, 'raw')
        cs.add('DataURI', 'direct', u)
        if pay:
            u2 = render(mts, mt, enc, pay, 'enc')
            if u2 != u:
                cs.add('DataURI', 'direct', u2)
    # with minifiers registered for the payload type (stubs: identity / shrinking / growing; literal, text/plain
    # and pattern registrations); a seeded part of the states (real minifiers run on documents, below)
    stub_types = ('text/x', 'text/plain')
    frac = 0.06 if quick else 0.4
    cs.family()
    for (mt, enc, pay) in states:
        if rnd.random() > frac:
            continue
        for mode in ('raw', 'enc'):
            u = render(mts, mt, enc, pay, mode)
            if low_type(u) in stub_types:
                for regs in STUBS_FOR[low_type(u)]:
                    cs.add('DataURI', 'direct', u, regs)
    # real minifiers on documents, every media type spelling of that type, four spellings of the payload
    cs.family()
    for (i, m) in enumerate(mts):
        t = low_type(b'data:' + m + b',')
        for pay in REAL_PAYLOADS.get(t, []):
            for enc, mode in ((0, 'enc'), (1, 'enc'), (0, 'all'), (0, 'raw')):
                u = render(mts, i + 1, enc, pay, mode)
                for regs in [[]] + STUBS_FOR[t]:
                    cs.add('DataURI', 'direct', u, regs)
                    embed(cs, u, regs, rnd)
    # every payload byte value 0..255: alone, after a letter, six times (base64 becomes the shorter form)
    for b in range(256):
        for pay in ((bytes([b]), bytes([b] * 6), bytes([b, 97, b])) if quick else (bytes([b]), bytes([97, b]), bytes([b] * 6), bytes([b, 97, b]))):
            for mt in ((1, 14) if quick else (1, 3, 14)):
                for enc, mode in ((0, 'enc'), (1, 'enc'), (0, 'all'), (0, 'raw')):
                    u = render(mts, mt, enc, pay, mode)
                    cs.add('DataURI', 'direct', u)
                    if mt == 14:
                        cs.add('DataURI', 'direct', u, STUBS_FOR['text/x'][0])
                        embed(cs, u, [], rnd)
    ctx.coverage['uris_simulated'] = len(sims)
    for (mt, enc, pay) in sims:
        if not pay or (quick and len(pay) % 3 != ctx.seed % 3 and len(pay) > 6):
            continue
        for mode in ('raw', 'enc'):
            u = render(mts, mt, enc, pay, mode)
            cs.add('DataURI', 'direct', u)
            if low_type(u) in stub_types:
                for regs in STUBS_FOR[low_type(u)][:2]:
                    cs.add('DataURI', 'direct', u, regs)
    lap('uri simulation done')
    # embedded channels: a seeded sample of the enumerated set
    pool = [s for s in states if s[2]]
    for (mt, enc, pay) in vlib.sample(pool, 700 if quick else 25000, rnd):
        for mode in ('raw', 'enc'):
            u = render(mts, mt, enc, pay, mode)
            regs = rnd.choice([[]] + (STUBS_FOR[low_type(u)] if low_type(u) in stub_types else []))
            embed(cs, u, regs, rnd)
    # malformed forms
    for u in [b'', b'data', b'data:', b'data:,', b'datx:x', b'data:text/css', b'DATA:,a', b'data:;base64', b'data:;base64,',
              b'data:;base64,a', b'data:;base64,aa', b'data:;base64,aaa', b'data:;base64,aaaa', b'data:;base64,aa=a',
              b'data:;base64,=aaa', b'data:;base64,a===', b'data:;base64,====', b'data:;base64,aaaa\n', b'data:;base64,aa\r\naa',
              b'data:;base64,aa aa', b'data:;base64,%61', b'data:;base64,aaaaa===', b'data:;base64 ,aaaa', b'data:; base64,aaaa',
              b'data:text/css;,x', b'data:text/css;;x=y,x', b'data:,%', b'data:,%a', b'data:,%%61', b'data:,%6', b'data:,%g1%1g',
              b'data:,,', b'data:,a,b', b' data:,a', b'data:,a ', b'data:\x00,a']:
        cs.add('DataURI', 'direct', u)
        for regs in STUBS_FOR['text/plain']:
            cs.add('DataURI', 'direct', u, regs)
    # media type spellings around the default-parameter stripping, crossed with a few payloads
    for m in [b'text/plain;charset=us-asciiz', b'text/x;charset=us-ascii-x;y=z', b'text/x;xcharset=us-ascii', b'text/x;charset=us-ascii ;y=z',
              b'text/x;y=z;charset=us-ascii', b'text/x;y=z; CHARSET=US-ASCII ;w=v', b'text/x;charset=us-ascii;charset=us-ascii',
              b'text/x;charset=utf-8;charset=us-ascii', b'text/x;charset=us-asci', b'text/x;acharset=us-ascii;charset=us-ascii',
              b' text/plain ', b'text/plain ; charset=us-ascii', b'text/plai', b'text/pla;charset=us-ascii', b'text/x;a="b;c"',
              b'text/x;a=b;', b'application/x-text/plain', b'x/text/plain;a=b', b'text/x;a=text/plain']:
        for pay in (b'', b'a', b'a b', b'%23%23%23%23%23%23', b'<>'):
            for b64 in (False, True):
                u = b'data:' + m + (b';base64,' + base64.b64encode(pay) if b64 else b',' + pay)
                cs.add('DataURI', 'direct', u)
                cs.add('DataURI', 'direct', u, STUBS_FOR['text/x'][1])
                embed(cs, u, [], rnd)
    ruris, rmts = repo_inputs()
    ctx.coverage['repo_test_inputs'] = len(ruris) + len(rmts)
    for u in ruris:
        cs.add('DataURI', 'direct', u)
        embed(cs, u, [], rnd)

    # ---- media type strings: the whole dump in quick; in thorough every string up to length 6 and a seeded
    # part of length 7 (the design models are checked on all of them by TLC above)
    cs.family()
    top = max(len(sx) for sx, _ in mstrings)
    for sx, _ in mstrings:
        if len(sx) < top or rnd.random() < (0.2 if quick else 0.3):
            cs.add('Mediatype', 'direct', sx)
    ctx.coverage['mediatypes_simulated'] = len(msims)
    cs.family()
    for sx, _ in msims:
        cs.add('Mediatype', 'direct', sx)
    lap('mediatype simulation done')
    # seeded strings of length 6..14 over the same alphabet (+ tab, B), and long ones
    alpha = [65, 97, 32, 34, 59, 61, 47, 92, 9, 66]
    for _ in range(2000 if quick else 150000):
        n = rnd.randint(6, 14)
        cs.add('Mediatype', 'direct', bytes(rnd.choice(alpha[:8] if rnd.random() < 0.8 else alpha) for _ in range(n)))
    for n in (1023, 1024, 1100, 2100):
        for pat in (b'Text/Html; Charset="UTF-8"; X=Y ', b'A "B c" D ', b'AB ;'):
            cs.add('Mediatype', 'direct', (pat * (n // len(pat) + 1))[:n])
    for sx in rmts + [b'text/html', b'Text/HTML ; Charset = "UTF-8"', b'video/mp4; codecs="av01.0.05M.08"', b'a/b;x="A\\\\"; Y=Z',
                      b'multipart/form-data; boundary="--Abc D"', b'"', b'A"', b'"A', b'A "B', b' A" B']:
        cs.add('Mediatype', 'direct', sx)
    # through the HTML minifier (type attribute): strings the attribute layer hands over verbatim
    for sx in vlib.sample([x for x, _ in mstrings if len(x) >= 3], 500 if quick else 15000, rnd) + rmts:
        if sx == sx.strip(WS) and b'  ' not in sx and all(32 <= c < 127 and c != 38 for c in sx) and sx:
            cs.add('Mediatype', 'html', sx, [], '"' if 39 in sx else "'")
    cs.flush()
    lap('%d cases generated and validated' % cs.total)


# ---- running and validating -------------------------------------------------------------------------
def run_cases(ctx, exe, cases, tag):
    cin = ctx.path('run', tag + '-cases.ndjson')
    tout = ctx.path('run', tag + '-trace.ndjson')
    vlib.write_ndjson(cin, cases)
    vlib.run([exe, cin, tout], timeout=1800)
    lines = [l.rstrip('\n') for l in open(tout)]
    os.remove(cin)
    os.remove(tout)
    if len(lines) != len(cases):
        raise vlib.Infra('harness wrote %d lines for %d cases' % (len(lines), len(cases)))
    return lines


KEEP = ('fn', 'in', 'out', 'regs', 'calls', 'hasref', 'refpay', 'panic')


DRIFT_EVERY = [1]      # compare every n-th line with the as-is transcriptions (quick tier: 4)


def project(line, n=0):
    e = json.loads(line) if isinstance(line, str) else line
    d = {k: e[k] for k in KEEP}
    d['drift'] = n % DRIFT_EVERY[0] == 0
    return json.dumps(d, separators=(',', ':'))


def tv(ctx, lines):
    """TLC on the projected lines: (indices rejected by the relation -> clause names, indices with model drift)"""
    _, rejects = vlib.tlc_trace(ctx, 'C18Trace', 'C18Trace.cfg', [project(l, n) for n, l in enumerate(lines)], timeout=3000)
    why, drift = {}, set()
    for i, w in rejects:
        if w == 'DRIFT':
            drift.add(i)
        else:
            why.setdefault(i, []).append(w)
    return why, drift


def validate(ctx, exe, cases, tag):
    lines = run_cases(ctx, exe, cases, tag)
    why, drift = tv(ctx, lines)
    return lines, why, drift


def describe(c, e, why):
    return '%s[%s%s] %r -> %r : %s' % (c['fn'], c['via'], ''.join(' %s:%s=%s' % (r['how'], r['key'], r['stub']) for r in c['reg']),
                                      S(c['in']), 'PANIC' if e['panic'] else S(e['out']), '/'.join(why))


def validate_alone(ctx, exe, cases, tag):
    """every case in a harness process of its own; the recorded lines are validated by one TLC run"""
    lines = []
    for n, c in enumerate(cases):
        lines += run_cases(ctx, exe, [dict(c, id=0)], '%s-alone%d' % (tag, n))
    why, _ = tv(ctx, lines)
    return lines, why


def selftest(ctx, extra=()):
    """binding self-test of the relation itself: hand-made lines with one corrupted field each must be rejected by
    the clause they break, clean controls must be accepted (otherwise the machinery is broken: exit 2)"""
    def line(fn, i, o, regs=(), calls=(), hasref=False, refpay=b'', panic=False):
        return dict(fn=fn, out=B(o), regs=[B(r) for r in regs], calls=[dict(c, **{'in': B(c['in']), 'out': B(c['out'])}) for c in calls],
                    hasref=hasref, refpay=B(refpay), panic=panic, **{'in': B(i)})

    def call(i, o, err=False):
        return {'in': i, 'out': o, 'err': err}
    T = [
        (line('DataURI', 'data:,a%20b', 'data:,a%20c'), 'payload changed'),
        (line('DataURI', 'data:text/css,a', 'data:text/cs,a'), 'media type changed'),
        (line('DataURI', 'data:;charset=utf-8,a', 'data:,a'), 'media type changed'),
        (line('DataURI', 'data:,%23%23%23%23%23%23', 'data:,%23%23%23%23%23%23'), 'not the shorter encoding'),
        (line('DataURI', 'data:;base64,IyMjIyMj', 'data:,%23%23%23%23%23%23'), 'not the shorter encoding'),
        (line('DataURI', 'data:,a&b', 'data:,a%26b'), 'longer than a validly encoded input'),
        (line('DataURI', 'datx:x', 'datx:y'), 'not a data URI but changed'),
        (line('DataURI', 'data:;base64,a', 'data:,x'), 'undecodable payload but changed'),
        (line('DataURI', 'data:,a', 'xdata:,a'), 'result is not a data URI'),
        (line('DataURI', 'data:,a', 'data:;base64,YQ='), 'result payload is not validly encoded'),
        (line('DataURI', 'data:text/x,a', 'data:text/x,a', regs=['text/x']), 'registered minifier not called'),
        (line('DataURI', 'data:text/x,a', 'data:text/x,a', calls=[call('a', 'a')]), 'minifier called for unregistered type'),
        (line('DataURI', 'data:text/x,a', 'data:text/x,a', regs=['text/x'], calls=[call('b', 'a')]), 'minifier got other than decoded payload'),
        (line('DataURI', 'data:text/x,a', 'data:text/x,a', regs=['text/x'], calls=[call('a', 'a'), call('a', 'a')]), 'minifier called more than once'),
        (line('DataURI', 'data:text/x,aa', 'data:text/x,aa', regs=['text/x'], calls=[call('aa', 'a')]), 'payload changed'),
        (line('DataURI', 'data:,a', 'data:,a', hasref=True, refpay='b'), 'ORACLE'),
        (line('DataURI', 'data:,a', '', panic=True), 'panic'),
        (line('Mediatype', 'A "B"', 'a "B"'), 'blanks/upper case left outside strings'),
        (line('Mediatype', 'A "B"', 'a"b"'), 'altered beyond case/blanks outside strings'),
        (line('Mediatype', 'A "B c"', 'a"Bc"'), 'altered beyond case/blanks outside strings'),
        (line('Mediatype', 'a', 'ab'), 'altered beyond case/blanks outside strings'),
        # controls
        (line('DataURI', 'data:,a+b', 'data:,a+b', hasref=True, refpay='a+b'), None),
        (line('DataURI', 'data:,a%2Bb', 'data:,a+b'), None),
        (line('DataURI', 'data:TEXT/plain; charset=US-ASCII ;base64,YQ==', 'data:,a'), None),
        (line('DataURI', 'data:text/x,a', 'data:text/x,a', regs=['text/x'], calls=[call('a', 'a' + 'g' * 64)]), None),
        (line('DataURI', 'data:text/x,a', 'data:text/x,a', regs=['text/x'], calls=[call('a', 'zz', err=True)]), None),
        (line('DataURI', 'data:Text/X,aa', 'data:Text/X,a', regs=['text/x'], calls=[call('aa', 'a')]), None),
        (line('DataURI', 'data:;base64,YQ', 'data:;base64,YQ'), None),
        (line('DataURI', 'data:;base64,YQ', 'data:,a'), None),
        (line('DataURI', 'data:,%zz', 'data:,%25zz'), None),
        (line('Mediatype', 'A "B c" ;D', 'a"B c";d'), None),
        (line('Mediatype', 'A "B\\" C" D', 'a"B\\" C"d'), None),
        (line('Mediatype', 'A "B C', 'a"b C'), None),
    ]
    why, _ = tv(ctx, [json.dumps(t[0], separators=(',', ':')) for t in T] + list(extra))
    ctx.c18_extra_why = dict((i - len(T), w) for i, w in why.items() if i >= len(T))   # verdicts on the extra (pinned) lines
    for i, (l, want) in enumerate(T):
        got = why.get(i, [])
        if (want is None and got) or (want is not None and want not in got):
            raise vlib.Infra('relation self-test failed on %r -> %r: expected %s, TLC said %s'
                             % (S(l['in']), S(l['out']), want or 'accepted', got or 'accepted'))
    return len(T)


class Stats:
    def __init__(self):
        self.nontrivial = set()
        self.samples = []
        self.branch = dict(unchanged=0, base64=0, percent=0, minifier_called=0, mediatype_changed=0)
        self.bytevals = set()
        self.per = {}
        self.lines = 0
        self.accepted = 0
        self.rejected = 0
        self.confirmed = 0
        self.drift = dict(DataURI=0, Mediatype=0)
        self.drift_samples = []


def process(ctx, exe, st, cases, tag):
    lines, why, drift = validate(ctx, exe, cases, tag)
    if any('ORACLE' in ws for ws in why.values()):
        i = [i for i, ws in why.items() if 'ORACLE' in ws][0]
        raise vlib.Infra('TLA+ decoder and Go standard library disagree on %r (machinery)' % S(cases[i]['in']))
    st.lines += len(lines)
    st.accepted += len(lines) - len(why)
    st.rejected += len(why)
    if why:
        # every rejected case is re-run alone (fresh process) and re-validated before it counts
        bad = sorted(why)[:400]
        lines2, why2 = validate_alone(ctx, exe, [cases[i] for i in bad], tag)
        for k in sorted(why2):
            c, e = cases[bad[k]], json.loads(lines2[k])
            st.confirmed += 1
            ctx.report(ident(c), describe(c, e, sorted(set(why2[k]))), replay_obj=e)
    for i, l in enumerate(lines):
        e = json.loads(l)
        key = '%s/%s' % (e['fn'], e['via'])
        st.per[key] = st.per.get(key, 0) + 1
        if i in drift:
            st.drift[e['fn']] += 1
            if len(st.drift_samples) < 5:
                st.drift_samples.append(dict(fn=e['fn'], out=S(e['out']), **{'in': S(e['in'])}))
        if e['fn'] == 'DataURI':
            if e['hasref']:
                st.bytevals.update(e['refpay'])
            if e['calls']:
                st.branch['minifier_called'] += 1
            if e['out'] == e['in']:
                st.branch['unchanged'] += 1
            elif b';base64,' in bytes(e['out']):
                st.branch['base64'] += 1
            else:
                st.branch['percent'] += 1
        elif e['out'] != e['in']:
            st.branch['mediatype_changed'] += 1
        if e['out'] != e['in'] or e['calls']:
            st.nontrivial.add(hash((e['fn'], e['via'], bytes(e['in']), json.dumps(cases[i]['reg'], sort_keys=True))))
            if len(st.samples) < 8 and (st.lines - len(lines) + i) % 7919 == 0:
                st.samples.append(dict(fn=e['fn'], via=e['via'], reg=cases[i]['reg'], out=S(e['out']), **{'in': S(e['in'])}))


def run(ctx):
    import time
    t0 = time.time()

    def lap(what):
        vlib.log('[c18] %6.1fs %s' % (time.time() - t0, what))
    exe = vlib.build_harness(ctx, 'c18')
    DRIFT_EVERY[0] = 4 if ctx.quick() else 1
    st = Stats()
    nbatch = [0]

    def sink(cases):
        nbatch[0] += 1
        process(ctx, exe, st, cases, 'b%d' % nbatch[0])
        lap('batch %d validated (%d lines so far, %d rejected)' % (nbatch[0], st.lines, st.rejected))
    cs = Cases(sink)
    # pinned witnesses (of the open finding K4 and, as regression cases, of the fixed findings): replayed on every run,
    # each in a harness process of its own; their lines are validated by the TLC run of the relation self-test; a rejected
    # one is a KNOWN-FINDING if its key is listed in known/C18.txt, else a VIOLATION
    pinned = [case_from_ident(k) for k in vlib.known_cases('C18')]
    l2 = []
    for n, c in enumerate(pinned):
        l2 += run_cases(ctx, exe, [dict(c, id=0)], 'pinned-alone%d' % n)
    ctx.c18_pinned_lines = l2
    make_cases(ctx, cs, lap)
    still = 0
    if pinned:
        why2 = ctx.c18_extra_why
        for k, c in enumerate(pinned):
            if k in why2:
                still += 1
                ctx.report(ident(c), describe(c, json.loads(l2[k]), sorted(set(why2[k]))), replay_obj=json.loads(l2[k]))
    q = ctx.quick()
    ctx.coverage.update(dict(
        traces_validated_against_impl=st.accepted,
        evaluations=st.lines,
        distinct_nontrivial=len(st.nontrivial),
        rule='DataURI: every state of the TLC generator DataUriGen (14 media type spellings x {;base64, none} x payloads '
             'of <= %d bytes over {a,space,%%,#,",<,NUL,0xFF,+,/,=}; at the top length a seeded 15%% in the quick tier), each as the raw text after the comma and as a validly '
             'encoded payload, without a minifier, and a seeded %d%% of all states with registered minifiers (identity/shrinking/'
             'growing stub; literal, text/plain and pattern registrations); real css/json/svg minifiers on a list of documents '
             'in 4 spellings x all media type spellings; every byte value 0..255 in 4 payload shapes x 4 spellings; TLC -simulate '
             'walks over all byte values up to 48 bytes; malformed forms; the repository test inputs; a seeded sample again '
             'through CSS url() and HTML src=; every header of <= %d tokens over {text/plain,text/x,;,=,blank,base64,charset,us-ascii,A,"} '
             'x 4 payload texts (TLC dump of DataUriHdrGen). Mediatype: every string of <= %s bytes over {A,a,space,",;,=,/,\\} (TLC dump of '
             'MediatypeGen), -simulate walks to 48 bytes, seeded strings of 6..14 bytes, strings around the 1024 byte mark, and '
             'a sample through the HTML type attribute. A case is (fn, channel, input bytes, registrations); non-trivial = the '
             'helper returned bytes different from its input or a registered minifier ran. Excluded from generation (narrow '
             'construct of the one open known finding K4, decided on the input only; the constructs of the fixed findings K1, K2, '
             'K3, K5, K6 are generated again): %s'
             % (3 if q else 4, 6 if q else 40, 3 if q else 5, '4 (and a seeded 20% of length 5)' if q else '6 (and a seeded 30% of length 7)',
                '; '.join('%s (%d inputs)' % kv for kv in sorted(cs.excluded.items())) or 'none'),
        samples=st.samples or [dict(note='no sampled line changed')],
        exhaustive=True,
        exhaustive_bound='all generator states: payload <= %d bytes over 11 symbols x 14 media types x 2 encodings; all headers of <= %d '
                         'tokens over 10 tokens x 4 payloads; all media type strings <= %d bytes over 8 symbols'
                         % (2 if q else 4, 3 if q else 5, 4 if q else 6),
        cases_per_channel=st.per,
        branch_hits=st.branch,
        payload_byte_values_covered=len(st.bytevals),
        rejections=st.rejected,
        rejections_reproduced=st.confirmed,
        pinned_witnesses=len(pinned),
        pinned_still_failing=still,
        design_drift=dict(st.drift, compared='every line' if not q else 'every 4th line', note='lines on which the transcription of the current code (DataUriAsIs.AsIsNone for calls without a minifier / '
                                         'MtMachine.AsIs) predicts other bytes than the code returned; information, never a verdict',
                          samples=st.drift_samples),
    ))
    if len(st.bytevals) != 256:
        raise vlib.Infra('only %d of 256 payload byte values were covered' % len(st.bytevals))
    ctx.assumptions += [
        'TLC evaluates DataUri.DataUriWhy/MediatypeWhy; the TLA+ percent/base64 decoders are cross-checked on every line against '
        'the Go standard library (net/url, encoding/base64) - a disagreement is exit 2',
        'RFC 2397 reading: header ends at the first comma, ";base64" only as the last item before it, "+" is not a space, '
        'urlchar = RFC 2396 reserved|unreserved|escaped; "&" may additionally be escaped',
        'an opening quote that is never closed is malformed: from there on the media type relation only demands the "only" reading',
        'embedded channels: the URL is recovered from the host output by a purpose-written url() scanner / golang.org/x/net/html',
        'DataUriDesign.Design describes the data URI helper as intended and is model-checked against the relation; DataUriAsIs / '
        'MtMachine.AsIs transcribe the current code: TLC proves they violate the relation only on the K4 construct (Mediatype: '
        'nowhere) within the bound, and every recorded call is compared with them (design_drift); the pre-fix transcriptions '
        '(OldUri, OldAsIs) are kept as wrong-design guards that the relation must still reject',
    ]


def replay(ctx, obj):
    exe = vlib.build_harness(ctx, 'c18')
    c = case_from_ident(obj['case'])
    lines, why, _ = validate(ctx, exe, [c], 'replay')
    e = json.loads(lines[0])
    print(describe(c, e, sorted(set(why.get(0, []))) or ['accepted']))
    if why:
        print('VIOLATION property=C18 replay=given')
        return 1
    return 0


META = dict(
    category='model_checking',
    text='TLC model-checks design models of both helpers (as intended, and transcriptions of the current and of the pre-fix code) against the abstract '
         'RFC 2397 relation DataUriOK / MediatypeOK over every data URI of the generators (media type spellings x base64/percent x '
         'payloads over a small alphabet x five kinds of registered minifier; header token sequences; media type strings over '
         'quotes/backslash/blanks/case), and evaluates that relation - RFC 2397 parser, percent- and base64-decoding, media type '
         'normalisation, shorter-encoding and never-longer clauses, all in TLA+ - on the recorded result of every real call '
         'of minify.DataURI / minify.Mediatype (directly and through the CSS and HTML minifiers). Exhaustive within the bound, '
         'TLC -simulate walks over all 256 byte values and the repository inputs beyond it.',
    design_ref='DESIGN.md section 4, C18',
    note='Trusted: TLC, spec/DataUri.tla as the meaning of a data URI / media type string (decoders cross-checked against the Go '
         'standard library on every line). The one open finding (K4) is pinned in known/C18.*, its narrow input construct is not generated; the witnesses of the fixed findings are replayed as regression cases.',
    technique='TLA+ generator + design model checked against the abstract relation; TLC trace validation of recorded calls',
)
