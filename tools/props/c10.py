"""C10  Minifiers are total: no panic, no hang, input handed back on error.

MC : Totality (call/return machine over model documents; mutation operators as actions).  The generator
     configuration enumerates EVERY document reachable from the seeds by <= MaxOps operators (truncate at every
     byte, duplicate / delete / swap a token, splice two documents, inject a byte at every position, nest a
     construct d times); the hazard configuration must produce a counterexample to ErrGivesOriginalInv.
RUN: harness/cmd/c10 calls every public entry point (six Minify through M.Minify, M.Bytes, M.String; Number,
     Decimal, Mediatype, DataURI) on every mutant with the option extremes (precision -1, 0, 1, 17, 10^6, Keep*),
     on the repository corpora / benchmarks / test inputs and seeded mutations of them, and on nesting / repetition
     probes up to 10^5 levels.  One call at a time per process: goroutine + recover + wall deadline + heap watchdog;
     a dead process (Go stack overflow is fatal) is a "crash" event.
TV : C10Trace evaluates NoPanic, WithinBudget (process CPU time and allocation linear in the input length) and
     ErrGivesOriginal (returned data byte-equal to a copy taken before the call) on every recorded call.
"""
import collections
import json
import os
import re
import subprocess
import sys
import time
from concurrent.futures import ThreadPoolExecutor

import vlib

LANGS = ('html', 'css', 'js', 'json', 'svg', 'xml')
MAXINT = (1 << 63) - 1
PRECS = [-1, 0, 1, 17, 1000000, MAXINT, MAXINT - 1, 1 << 31, 1 << 62, -MAXINT - 1]
POPTS = ['pm1', 'default', 'p1', 'p17', 'p1000000', 'p%d' % MAXINT, 'p%d' % (MAXINT - 1), 'p%d' % (1 << 31), 'p%d' % (1 << 62), 'pm%d' % (MAXINT + 1)]
OPTS = {'html': ['default', 'keep', 'p1', 'pm1+es5'], 'xml': ['default', 'keep'], 'css': POPTS + ['keep'], 'js': POPTS + ['keep+es5'],
        'json': POPTS + ['keep'], 'svg': POPTS + ['keep']}

# ---- model documents (source of spec/TotalitySeeds.tla; regenerate with: python3 tools/props/c10.py --seeds) ----------------
SEEDS = [
    ('html', [b'<!doctype html>', b'<P Id="a&amp;b">', b'x &lt; y', b'<script>', b"var a='b'", b'</script>', b'</P>']),
    ('html', [b'<style>', b'a{color:#ff0000}', b'</style>', b'<a href=" http://x/ "', b' onclick="f( )">', b'<!--c-->', b'<pre> </pre>']),
    ('css', [b'@media x{', b'a', b'{', b'color', b':', b'rgb(255,0,0)', b';', b'margin:0px 1.50em', b'}', b'}']),
    # string tokens in every string-valued position (font, font-family, content, url(), attribute selector, @import; html attributes)
    ('css', [b'@import ', b'"x.css"', b';a[b=', b"'c'", b']{font:12px ', b'"A B"', b',', b"'serif'", b';font-family:', b'"Arial"',
             b';content:', b"'x'", b';background:url(', b'"x.png"', b')}']),
    ('html', [b'<a href=', b'"http://x/"', b' title=', b"'t'", b" style='font:bold 12px/1.2 ", b'"A B"', b",serif'", b'>x</a>']),
    ('js', [b'var ', b'a', b'=', b"'x'", b'+', b'1.50', b';', b'if(a)', b'{b(/r/g)}', b'else ', b'c=`a${b}`']),
    ('json', [b'{', b'"a"', b':', b'[', b'1.50e+3', b',', b'true', b',', b'"\\u00e9"', b']', b'}']),
    ('svg', [b'<svg>', b'<path d="', b'M10 10', b'L20.0 20', b'a1 1 0 0110 10', b'z', b'"', b' fill="#ff0000"', b'/>', b'</svg>']),
    # every path command letter in both cases, one token per letter and per argument: deleting / duplicating / swapping a token or
    # truncating gives every 'wrong number of arguments' shape for every command
    ('svg', [b'<svg><path d="', b'M', b'0', b' 0', b'L', b'1', b' 1', b'H', b'2', b'V', b'3', b'C', b'1', b' 1', b' 2', b' 2', b' 3', b' 3', b'S', b'4', b' 4', b' 5', b' 5', b'Q', b'6', b' 6', b' 7', b' 7', b'T', b'8', b' 8', b'A', b'1', b' 1', b' 0', b' 0', b' 1', b' 9', b' 9', b'Z', b'm', b'0', b' 0', b'l', b'1', b' 1', b'h', b'2', b'v', b'3', b'c', b'1', b' 1', b' 2', b' 2', b' 3', b' 3', b's', b'4', b' 4', b' 5', b' 5', b'q', b'6', b' 6', b' 7', b' 7', b't', b'8', b' 8', b'a', b'1', b' 1', b' 0', b' 0', b' 1', b' 9', b' 9', b'z', b'"/></svg>']),
    ('xml', [b'<?xml version="1.0"?>', b'<a b="c&#38;">', b' x ', b'<![CDATA[y]]>', b'<!--c-->', b'</a>']),
    ('num', [b'-', b'012', b'.', b'3400', b'e', b'+', b'05']),
    ('num', [b'.', b'000', b'12', b'e', b'-', b'9']),
    ('mediatype', [b'text/HTML', b';', b' charset', b'=', b'"UTF-8"']),
    ('datauri', [b'data:', b'text/plain', b';charset=us-ascii', b';base64', b',', b'SGVsbG8=']),
    ('datauri', [b'data:', b'text/css', b',', b'a%7Bcolor:', b'red%7D']),
]
NEST = {
    'html': [(b'<div>', b'</div>'), (b'<b>', b''), (b'<table><tr><td>', b''), (b'<svg>', b'</svg>')],
    'css': [(b'a{b:f(', b')}'), (b'@media x{', b'}'), (b'(', b')'), (b'a{b:[', b']}')],
    'js': [(b'(', b')'), (b'[', b']'), (b'{', b'}'), (b'a+', b''), (b"'a'+", b''), (b'function f(){', b'}'), (b'a?', b':c'),
           (b'`${', b'}`'), (b'!', b''), (b'if(a)', b''), (b'a=>', b'')],
    'json': [(b'[', b']'), (b'{"a":', b'}')],
    'svg': [(b'<g>', b'</g>'), (b'<svg>', b'</svg>')],
    'xml': [(b'<a>', b'</a>'), (b'<a b="c">', b'')],
    'num': [(b'0', b''), (b'9', b''), (b'1e', b'')],
    'mediatype': [(b'a/b;c="', b'"'), (b' ; ', b'')],
    'datauri': [(b'%41', b''), (b'data:,', b'')],
}
# repetition / nesting probes aimed at the limits named in the property's anchors
# (css tokensLevel and len(values) limits, svg path 100000-byte cut-off, js mergeBinaryExpr limit, js 10000-declaration cut-off)
PROBES = [
    ('js', b'a.b(', b'c', b')'), ('js', b'a,', b'a', b''), ('js', b'var a,b;', b'', b''), ('js', b'', b'var a', b',b'), ('js', b'', b"x='a'", b"+'b'"),
    ('js', b'', b'x=a', b'+a'), ('js', b'', b'x=a', b'&&a'), ('js', b'', b'x=[', b'1,'), ('js', b'', b'x={', b'a:1,'), ('js', b'let a;{', b'a', b'}'),
    ('js', b'', b'a', b';a'), ('js', b'', b'a', b'\na'), ('js', b'', b'x=`', b'${a}'), ('js', b'', b'f(', b'a,'), ('js', b'', b'function f(', b'a,'),
    ('js', b'', b'switch(a){', b'case 1:'), ('js', b'', b'x=/', b'[a]'), ('js', b'', b'x="', b'\\n'), ('js', b'', b'//', b'a'), ('js', b'', b'/*', b'*'),
    ('js', b'', b'if(a)b;', b'else if(a)b;'), ('js', b'x=>{', b'return a', b'}'), ('js', b'class A{', b'', b'}'), ('js', b'a?.b', b'', b'?.c'),
    ('css', b'a{b:1 ', b'1}', b''), ('css', b'a,', b'a{b:c}', b''), ('css', b'a{b:c}', b'', b''), ('css', b'a{b:', b'1', b''), ('css', b'', b'a{background:url(x)', b',url(x)'),
    ('css', b'', b'a{font:1px ', b'a,'), ('css', b'', b'a{margin:', b'1px '), ('css', b'', b'a{b:rgb(', b'1,'), ('css', b'', b'a{b:calc(', b'1+'), ('css', b'a{', b'', b''),
    ('css', b'', b'a{b:"', b'\\\n'), ('css', b'', b'@import ', b'url(a) '), ('css', b'', b'a', b':not(b)'), ('css', b'', b'a{unicode-range:', b'U+0-1,'), ('css', b'/*', b'', b'*/'),
    ('html', b'<p a=b ', b'>', b''), ('html', b'<!--', b'x', b'-->'), ('html', b'', b'<p>', b' x '), ('html', b'', b'<a href="', b'&amp;'), ('html', b'', b'<p', b' a'),
    ('html', b'', b'x', b'&#38;'), ('html', b'<script>', b'a', b'</script>'), ('html', b'', b'<p style="', b'a:b;'), ('html', b'<select>', b'<option>a', b''), ('html', b'<', b'', b''),
    ('html', b'', b'<p', b' a="\'"'), ('html', b'', b'<!--[if IE]>', b'<p>x'), ('html', b'', b'<textarea>', b'<'), ('html', b'', b'<p>', b'\n'),
    ('json', b'[1,', b'1]', b''), ('json', b'', b'[', b'1.50,'), ('json', b'', b'{', b'"a":1,'), ('json', b'', b'"', b'\\u0041'), ('json', b'', b'1', b'0'), ('json', b'', b'1e', b'9'),
    ('xml', b'<a b="c"', b'/>', b''), ('xml', b'', b'<a', b' b="c"'), ('xml', b'', b'<a>', b' x '), ('xml', b'', b'<a>', b'&#38;'), ('xml', b'', b'<![CDATA[', b']]'), ('xml', b'', b'<!--', b'-'),
    ('svg', b'<path d="M0 0', b'"/>', b'L1 1'), ('svg', b'', b'<path d="M0 0', b' 1 1'), ('svg', b'', b'<path d="M0 0', b'a1 1 0 0 0 1 1'), ('svg', b'', b'<path d="M0 0', b'z'),
    ('svg', b'', b'<path d="M', b'1'), ('svg', b'', b'<path d="M0 0', b'l1e3,1e-3'), ('svg', b'', b'<g', b' fill="#ff0000"'), ('svg', b'', b'<svg viewBox="', b'0 '),
    ('svg', b'', b'<style>', b'a{b:c}'), ('svg', b'', b'<path d="M0 0', b'-.5-.5'), ('svg', b'', b'<path d="M0 0', b'C1 1 2 2 3 3'),
]

# Known findings (known/C10.txt).  Narrow syntactic exclusions on the generated INPUT / call:
# KA: M.Bytes hands the caller's slice to the minifiers, which edit it in place (HTML lower-cases tag and attribute names, XML/SVG
#     collapse white space) before a late error; Bytes then returns that edited slice as "the original".  Only calls that can fail are
#     affected: XML/SVG fail only on a NUL byte, HTML only through an embedded resource or a NUL byte, JSON (numbers are rewritten
#     in place: 1.50e+3 -> 1500e+3) on any text that is not JSON.  Generators do not emit Bytes calls for html/xml/svg/json inputs that
#     can make the minifier fail (the String and Minify entry points are still called on them; Bytes on js/css stays fully checked).
KA_CAN_FAIL_HTML = re.compile(rb'\x00|<script|<svg|<math|[\s"\'/<]on[^\s=>]*\s*=', re.I)   # any attribute whose name starts with "on" is JS
# KB: the JS minifier needs time quadratic in the number of var statements of one scope (js/vars.go hoistVars; the 10000 cut-off
#     only limits the length of a single declaration list).  Generators emit at most 3000 var statements per scope.
KB_VAR = re.compile(rb'\bvar\b')
# KD: the HTML minifier looks ahead over all following tokens for every white-space-only text token: "a" + " </b>" x N is quadratic
KD_WS = re.compile(rb'>[ \t\r\n]+<')


def json_ok(data):
    """strict JSON per Python's json module (independent of the code under test); used only to decide KA's exclusion"""
    try:
        def bad(x):
            raise ValueError(x)
        json.loads(data.decode('utf-8'), parse_constant=bad)
        return b'\x00' not in data
    except (ValueError, RecursionError):
        return False


def doc_tags(lang, data):
    """construct tags of known findings present in a document (computed once per document, not per call)"""
    tags = set()
    if lang == 'json' and not json_ok(data):
        tags.add('KA')
    if lang in ('xml', 'svg') and b'\x00' in data:
        tags.add('KA')
    if lang == 'html' and KA_CAN_FAIL_HTML.search(data):
        tags.add('KA')
    if lang in ('js', 'html') and len(data) > 20000 and len(KB_VAR.findall(data)) > 3000:
        tags.add('KB')
    if lang == 'html' and len(data) > 15000 and len(KD_WS.findall(data)) > 3000:
        tags.add('KD')
    return tags


FIXED_NOTES = {
    'KA': 'fixed: property=C10 35cd1c2 KA M.Bytes returned the caller\'s slice after the minifier had edited it in place (late error)',
    'KC': 'fixed: property=C10 a9dc99b KC minify.Number panicked (start+prec overflow) for a precision within a few units of MaxInt, also through the Precision options',
}
FIXED = set(FIXED_NOTES)
LIFTED = FIXED | set(filter(None, os.environ.get('VERIF_C10_LIFT', '').split(',')))       # trial runs against a patched tree


# KC: minify.Number computes start+prec; for a precision within a few units of MaxInt the sum overflows to a negative index (panic).
#     Reached directly and through the Precision option of the css / svg / js / json minifiers.
def kc_call(api, opts, prec):
    big = MAXINT - 4096
    if api in ('Number', 'Decimal'):
        return prec >= big
    m = re.search(r'(?:^|\+)p(\d+)', opts)
    return bool(m) and int(m.group(1)) >= big


def excluded(api, tags):
    return [t for t in tags if (t != 'KA' or api == 'Bytes') and t not in LIFTED]


SCHEME_LITERALS = [b'http', b'https', b'http:', b'https:', b'data:', b'javascript:', b'//', b'mailto:', b'data:text/plain;base64,', b'data:,',
                   b'ftp:', b'file:', b'#', b'?']
URL_ATTR_TEMPLATES = [b'<a href=%s>x</a>', b'<img src="%s">', b'<form action=" %s ">', b'<link href=\'%s\' rel=x>', b'<script src=%s></script>',
                      b'<p onclick="%s">', b'<iframe src="%s"></iframe>', b'<a href="%s" id=b>']


def url_prefix_values(quick, rnd):
    """every prefix of every scheme literal, and every prefix plus one more character, in three letter cases, bare and with blanks"""
    cases = (bytes.lower, bytes.upper, lambda b: bytes(c ^ 32 if i % 2 and 65 <= (c & ~32) <= 90 else c for i, c in enumerate(b)))
    exact, more = [], []
    for lit in SCHEME_LITERALS:
        for k in range(1, len(lit) + 1):
            for case in cases:
                v = case(lit[:k])
                if v not in exact:
                    exact.append(v)
    for lit in SCHEME_LITERALS:
        for k in range(len(lit) + 1):
            for extra in (b'x', b':', b'/', b's'):
                for case in cases:
                    v = case(lit[:k] + extra)
                    if v not in exact and v not in more:
                        more.append(v)
    return exact + (more if not quick else vlib.sample(more, 80, rnd))      # the exact prefixes always, in every tier


def render_seeds():
    def tup(b):
        return '<<' + ', '.join(str(x) for x in b) + '>>'
    out = ['----------------------------- MODULE TotalitySeeds -----------------------------',
           '(* Model documents of C10 as token sequences of byte codes, and the nesting constructs per language.',
           '   GENERATED from the table in tools/props/c10.py (python3 tools/props/c10.py --seeds); do not edit by hand. *)',
           'SeedLang == <<' + ', '.join('"%s"' % l for l, _ in SEEDS) + '>>', 'SeedDoc == <<']
    for i, (l, toks) in enumerate(SEEDS):
        out.append('  <<' + ', '.join(tup(t) for t in toks) + '>>' + (',' if i < len(SEEDS) - 1 else '') + '    \\* ' + l + ': ' +
                   b''.join(toks).decode().replace('\\', '\\\\'))
    langs = sorted(NEST)
    out += ['>>', 'NestLangs == <<' + ', '.join('"%s"' % l for l in langs) + '>>',
            'NestCount == <<' + ', '.join(str(len(NEST[l])) for l in langs) + '>>',
            '=============================================================================']
    return '\n'.join(out) + '\n'


def parse_gen_dump(path):
    """mutants of a Totality generator dump: list of (seed index, bytes, (construct, depth), ops, lastop).
    TLC wraps long values over several lines: continuation lines belong to the variable of the last '/\\ name =' line."""
    num = re.compile(r'-?\d+')
    res, cur, key = [], {}, None

    def flush():
        if 'doc' in cur:
            nest = [int(x) for x in num.findall(cur['nest'])]
            res.append((int(cur['seed']), bytes(int(x) for x in num.findall(cur['doc'])), (nest[0], nest[1]), int(cur['ops']),
                        cur['lastop'].strip().strip('"')))
    for line in open(path):
        line = line.rstrip('\n')
        if line.startswith('State '):
            flush()
            cur, key = {}, None
        elif line.startswith('/\\ '):
            key, _, v = line[3:].partition(' = ')
            cur[key] = v
        elif line.strip() and key is not None:
            cur[key] += ' ' + line.strip()
    flush()
    return res


class Cases:
    def __init__(self, ctx):
        self.ctx = ctx
        self.cases = []
        self.seen = set()
        self.excluded = 0

    def add(self, api, lang, opts='default', prec=0, data=b'', file=None, pre=b'', post=b'', depth=0, origin='', allow_known=False, tags=None):
        if file is None:
            full = pre * depth + data + post * depth if depth and len(pre + post) * depth < 4000000 else None
            k = (api, lang, opts, prec, data, pre, post, depth)
        else:
            full = None
            k = (api, lang, opts, prec, file)
        if k in self.seen:
            return None
        if not allow_known and 'KC' not in LIFTED and kc_call(api, opts, prec):
            self.excluded += 1
            return None
        if not allow_known:
            if tags is None:
                tags = doc_tags(lang, full if full is not None else (data if file is None else open(file, 'rb').read()))
            if excluded(api, tags):
                self.excluded += 1
                return None
        self.seen.add(k)
        c = dict(id=len(self.cases), api=api, lang=lang, opts=opts, prec=prec, origin=origin)
        if file is not None:
            c['file'] = file
        elif len(data) > 4096:
            p = self.ctx.path('cases', '%d.bin' % c['id'])
            with open(p, 'wb') as f:
                f.write(data)
            c['file'] = p
        else:
            c['in'] = list(data)
        if depth:
            c['pre'], c['post'], c['depth'] = list(pre), list(post), depth
        self.cases.append(c)
        return c['id']

    def ident(self, c):
        d = dict(api=c['api'], lang=c['lang'], opts=c['opts'], prec=c['prec'], depth=c.get('depth', 0),
                 pre=bytes(c.get('pre', [])).decode('latin1'), post=bytes(c.get('post', [])).decode('latin1'))
        if 'file' in c and c['file'].startswith(vlib.REPO):
            d['file'] = os.path.relpath(c['file'], vlib.REPO)
        elif 'file' in c:
            d['in'] = open(c['file'], 'rb').read().decode('latin1')
        else:
            d['in'] = bytes(c['in']).decode('latin1')
        return d


def apis_for(lang):
    return {'num': ['Number', 'Decimal'], 'mediatype': ['Mediatype'], 'datauri': ['DataURI']}.get(lang, ['Minify', 'Bytes', 'String'])


def add_product(cs, lang, data, origin, rnd, full, pre=b'', post=b'', depth=0, apis=None):
    """one document x every entry point x option extremes (full) or a seeded subset of the options (not full)"""
    tags = doc_tags(lang, pre * depth + data + post * depth if len(pre + post) * depth < 4000000 else data)
    for api in (apis or apis_for(lang)):
        if lang == 'num':
            for p in (PRECS if full else [rnd.choice(PRECS), rnd.choice(PRECS)]):
                cs.add(api, lang, prec=p, data=data, pre=pre, post=post, depth=depth, origin=origin, tags=tags)
        elif lang in ('mediatype', 'datauri'):
            cs.add(api, lang, data=data, pre=pre, post=post, depth=depth, origin=origin, tags=tags)
        else:
            os_ = OPTS[lang] if full else ['default', rnd.choice(OPTS[lang][1:])] if rnd.random() < 0.5 else [rnd.choice(OPTS[lang])]
            for o in os_:
                cs.add(api, lang, opts=o, data=data, pre=pre, post=post, depth=depth, origin=origin, tags=tags)


# ------------------------------------------------------------------------------------------- running the driver
def run_shard(ctx, exe, cases, tag):
    """run one driver process over cases (sequentially); restarts it after timeout / memory / crash events"""
    cin = ctx.path('run', tag + '-cases.ndjson')
    tout = ctx.path('run', tag + '-trace.ndjson')
    vlib.write_ndjson(cin, cases)
    if os.path.exists(tout):
        os.remove(tout)
    open(tout, 'w').close()
    start = 0
    restarts = 0
    while start < len(cases):
        try:
            r = subprocess.run([exe, cin, tout, str(start)], capture_output=True, text=True, errors='replace', timeout=3600)
        except subprocess.TimeoutExpired:
            raise vlib.Infra('c10 driver exceeded one hour')
        n = sum(1 for _ in open(tout))
        if r.returncode == 0:
            break
        restarts += 1
        if restarts > 200:
            raise vlib.Infra('c10 driver restarted more than 200 times')
        if r.returncode == 3:          # timeout / mem event was written for case n-1
            start = n
            continue
        if r.returncode == 2 and 'harness:' in r.stderr:
            raise vlib.Infra('c10 driver: ' + r.stderr[-500:])
        # the process died while running case n (Go stack overflow and out-of-memory are fatal, not recoverable)
        c = cases[n]
        m = re.search(r'(fatal error: [^\n]*|runtime: goroutine stack exceeds[^\n]*|signal: [^\n]*)', r.stderr)
        ev = dict(id=c['id'], api=c['api'], lang=c['lang'], opts=c['opts'], prec=c['prec'], n=-1, outcome='crash', cpu_us=0, wall_us=0,
                  alloc=0, stack=0, nout=0, orig_sha='', ret_sha='', orig=[], ret=[], small=False, tail_ok=True,
                  msg=(m.group(1) if m else 'exit %d: %s' % (r.returncode, r.stderr[-200:])))
        with open(tout, 'a') as f:
            f.write(json.dumps(ev) + '\n')
        start = n + 1
    evs = vlib.read_ndjson(tout)
    if len(evs) != len(cases):
        raise vlib.Infra('c10 driver wrote %d events for %d cases' % (len(evs), len(cases)))
    return evs


def to_line(e):
    """event -> trace line (TLC integers are 32 bit: allocation travels in KiB)"""
    return dict(id=e['id'], api=e['api'], n=max(e['n'], 0), outcome=e['outcome'], cpu_us=min(e['cpu_us'], 2000000000),
                alloc=e['alloc'] // 1024, stack=e['stack'] // 1024, nout=e['nout'], orig_sha=e['orig_sha'], ret_sha=e['ret_sha'],
                small=e['small'], orig=e['orig'], ret=e['ret'])


def drive(ctx, exe, cases, tag, procs):
    shards = [cases[i::procs] for i in range(procs)]
    shards = [s for s in shards if s]
    with ThreadPoolExecutor(max_workers=len(shards)) as ex:
        parts = list(ex.map(lambda a: run_shard(ctx, exe, a[1], '%s-%d' % (tag, a[0])), enumerate(shards)))
    by = {}
    for p in parts:
        for e in p:
            by[e['id']] = e
    return [by[c['id']] for c in cases]


def selftest(ctx, lines):
    """binding self-test: doctored copies of accepted events must be rejected by TLC with the right clause"""
    base = next((l for l in lines if l['api'] == 'Bytes' and l['outcome'] == 'err' and l['small']), None)
    if base is None:
        raise vlib.Infra('self-test: no small failing Bytes call recorded')
    a = dict(base, outcome='panic')
    b = dict(base, cpu_us=250000 + 5 * base['n'] + 1)
    c = dict(base, alloc=46875 + (75 * base['n']) // 128 + 1, stack=0)      # KiB: one over the budget
    d = dict(base, ret_sha='0' * 40)
    e = dict(base, ret=(base['ret'][:-1] + [(base['ret'][-1] + 1) % 256]) if base['ret'] else [1])
    f = dict(base, outcome='crash')
    acc, rej = vlib.tlc_trace(ctx, 'C10Trace', 'C10Trace.cfg', [a, b, c, d, e, f, base])
    got = collections.defaultdict(set)
    for pos, w in rej:
        got[pos].add(w)
    ok = got[0] == {'NoPanic'} and got[1] == {'WithinBudget'} and got[2] == {'WithinBudget'} and got[3] == {'ErrGivesOriginal'} and \
        got[4] == {'ErrGivesOriginal'} and got[5] == {'NoPanic'} and not got[6]
    if not ok:
        raise vlib.Infra('binding self-test failed: %s' % dict(got))
    ctx.coverage['binding_selftest'] = 'doctored events rejected: outcome panic/crash -> NoPanic; cpu / alloc over budget -> WithinBudget; ret_sha / ret byte changed -> ErrGivesOriginal'


def describe(c, e, whys):
    full = bytes(c.get('pre', [])) * min(c.get('depth', 0), 3) + (bytes(c['in']) if 'in' in c else b'<file %s>' % c['file'].encode()) + \
        bytes(c.get('post', [])) * min(c.get('depth', 0), 3)
    s = '%s(%s[%s], prec %d) on %d bytes %r%s: outcome %s, cpu %.0f ms, alloc %.1f MB, stack %.1f MB' % (
        e['api'], e['lang'], e['opts'], e['prec'], e['n'], full[:120].decode('latin1'),
        ' (construct x%d)' % c['depth'] if c.get('depth') else '', e['outcome'], e['cpu_us'] / 1000, e['alloc'] / 1e6, e['stack'] / 1e6)
    if 'ErrGivesOriginal' in whys:
        s += '; returned data differs from the caller\'s original (%r)' % bytes(e['ret'])[:80].decode('latin1')
    if e['msg'] and e['outcome'] not in ('ok', 'err'):
        s += '; ' + e['msg'][:300].replace('\n', ' | ')
    return s + '; clauses ' + '/'.join(sorted(set(whys)))


def run(ctx):
    quick = ctx.quick()
    rnd = ctx.rnd
    exe = vlib.build_harness(ctx, 'c10')
    # seeds module must be the one generated from the table above
    if open(os.path.join(vlib.SPEC, 'TotalitySeeds.tla')).read() != render_seeds():
        raise vlib.Infra('spec/TotalitySeeds.tla is stale: run python3 tools/props/c10.py --seeds')
    # ---- (MC)
    t0 = time.time()
    vlib._speccopy(ctx)           # before the threads start (the copy is not re-entrant)
    with ThreadPoolExecutor(max_workers=4) as ex:
        f_mc = ex.submit(vlib.tlc_mc, ctx, 'Totality', 'Totality_mc.cfg' if quick else 'Totality_mcfull.cfg', 4, timeout=2400, heap='4g')
        gen_dump = ctx.path('gen', 'totality')
        # one operator on every model document (incl. the long path document with every command letter); the thorough tier adds
        # every second operator on the short documents
        f_gen = ex.submit(vlib.tlc_mc, ctx, 'Totality', 'Totality_gen1.cfg', 4, dump=gen_dump, timeout=2400, heap='4g')
        f_gen2 = None if quick else ex.submit(vlib.tlc_mc, ctx, 'Totality', 'Totality_gen2.cfg', 4, dump=gen_dump + '2', timeout=2400, heap='4g')
        f_hz = ex.submit(vlib.tlc, ctx, 'Totality', 'Totality_hazard.cfg', 2, timeout=600)
        r_mc, r_gen, r_hz = f_mc.result(), f_gen.result(), f_hz.result()
        if f_gen2:
            f_gen2.result()
    if 'ErrGivesOriginalInv' not in r_hz['invariant_violations']:
        raise vlib.Infra('hazard model did not violate ErrGivesOriginalInv (clause would be vacuous):\n' + r_hz['out'][-1500:])
    vlib.log('c10: model checking %.1fs' % (time.time() - t0))
    mutants = parse_gen_dump(gen_dump + '.dump')
    if not quick:
        seen1 = set((m[0], m[1], m[2]) for m in mutants)
        mutants += [m for m in parse_gen_dump(gen_dump + '2.dump') if (m[0], m[1], m[2]) not in seen1]
    ctx.coverage['model_mutants'] = len(mutants)
    ctx.coverage['hazard_counterexample_found'] = True

    cs = Cases(ctx)
    only_pinned = os.environ.get('VERIF_C10_ONLY') == 'pinned'
    # ---- (A) model mutants x entry points x option extremes
    nlangs = sorted(NEST)
    for seed, data, (cidx, depth), ops, lastop in ([] if only_pinned else mutants):
        lang = SEEDS[seed - 1][0]
        pre, post = (NEST[lang][cidx - 1] if cidx else (b'', b''))
        if quick and depth >= 10000 and rnd.random() < 0.5:
            continue
        if quick and lastop == 'inject' and rnd.random() < (0.75 if len(SEEDS[seed - 1][1]) > 12 else 0.5):
            continue        # the long path document: its token and truncation mutants matter; a quarter of the byte injections
        full = (not quick and ops <= 1) or (quick and ops == 0)
        if not quick and ops == 2 and rnd.random() < 0.7:
            continue
        add_product(cs, lang, data, 'model:%s:%d:%s' % (lang, ops, lastop), rnd, full, pre, post, depth)
    ctx.coverage['model_calls'] = len(cs.cases)
    # ---- (B) corpora, benchmarks; (C) the repository's own test inputs; (D) seeded mutations of both
    import props.c09 as c09
    docs = c09.repo_documents() if not only_pinned else []
    for lang, path, origin in docs:
        for api in apis_for(lang):
            for o in (OPTS[lang] if not quick or os.path.getsize(path) < 100000 else ['default', rnd.choice(OPTS[lang][1:])]):
                cs.add(api, lang, opts=o, file=path, origin=origin)
    for sub, api in (('number', 'Number'), ('decimal', 'Decimal'), ('mediatype', 'Mediatype'), ('data-uri', 'DataURI')):
        d = os.path.join(vlib.REPO, 'tests', sub, 'corpus')
        if os.path.isdir(d) and not only_pinned:
            for fn in sorted(os.listdir(d)):
                b = open(os.path.join(d, fn), 'rb').read()
                lang = {'Number': 'num', 'Decimal': 'num', 'Mediatype': 'mediatype', 'DataURI': 'datauri'}[api]
                add_product(cs, lang, b, 'corpus:%s/%s' % (sub, fn), rnd, True, apis=[api])
    tests = c09.test_strings(ctx) if not only_pinned else collections.defaultdict(list)
    pools = collections.defaultdict(list)
    for lang in LANGS:
        for b, origin in tests[lang]:
            pools[lang].append(b)
            if not quick or rnd.random() < 0.35:
                add_product(cs, lang, b, origin, rnd, False)
    big = collections.defaultdict(list)
    for lang, path, origin in docs:
        b = open(path, 'rb').read()
        (pools if len(b) <= 20000 else big)[lang].append(b)
    nmut = 0 if only_pinned else (4000 if quick else 60000)
    for k in range(nmut):
        lang = LANGS[k % len(LANGS)]
        if not pools[lang]:
            continue
        if lang == 'html' and big[lang] and rnd.random() < 0.3:
            base = c09.html_window(rnd, rnd.choice(big[lang]))
        else:
            base = rnd.choice(pools[lang])
        m, op = c09.mutate(rnd, lang, base, pools[lang])
        for _ in range(rnd.choice([0, 0, 1, 2])):
            m, op2 = c09.mutate(rnd, lang, m, pools[lang])
            op += '+' + op2
        add_product(cs, lang, m[:100000], 'mut:' + op, rnd, False, apis=[rnd.choice(['Minify', 'Bytes', 'String']), 'Bytes'])
    for k in range(0 if only_pinned else (30 if quick else 400)):
        lang = LANGS[k % len(LANGS)]
        if big[lang]:
            m, op = c09.mutate(rnd, lang, rnd.choice(big[lang]), [])
            cs.add(rnd.choice(['Minify', 'Bytes', 'String']), lang, opts=rnd.choice(OPTS[lang]), data=m, origin='mutbig:' + op)
    # late errors after in-place edits (ErrGivesOriginal): a valid document followed by a byte / fragment its minifier rejects
    late = {'json': [b'tru', b'\x00', b'}', b',,'], 'js': [b'(', b'\x00', b'var =', b'`'], 'css': [b'\x00', b'}', b'"'], 'xml': [b'\x00'], 'svg': [b'\x00'],
            'html': [b'\x00', b'<script>(</script>', b'<p onclick="(">', b'<svg>\x00</svg>']}
    for lang in ([] if only_pinned else LANGS):
        for b in vlib.sample(pools[lang], 60 if quick else 600, rnd):
            for tail in late[lang]:
                for api in ('Bytes', 'String'):
                    cs.add(api, lang, opts=rnd.choice(OPTS[lang]), data=b + tail, origin='late-error')
    # ---- URL-valued attributes whose value is a prefix (or prefix + one character) of a scheme literal the HTML minifier compares against
    if not only_pinned:
        nurl = 0
        for v in url_prefix_values(quick, rnd):
            for tmpl in URL_ATTR_TEMPLATES:
                for api in (['Bytes'] if quick else ['Bytes', 'String', 'Minify']):
                    if cs.add(api, 'html', opts='default' if rnd.random() < 0.7 else rnd.choice(OPTS['html']), data=tmpl % v, origin='urlprefix') is not None:
                        nurl += 1
        ctx.coverage['url_prefix_calls'] = nurl
    # ---- (E) nesting / repetition probes (stack depth, time and memory proportional to the input)
    depths = [10, 100, 1000, 10000] + ([] if quick else [100000])
    for lang, pre, body, post in ([] if only_pinned else PROBES + [(l, a, b'x' if l in ('html', 'xml') else b'1' if l in ('json', 'css', 'num') else b'a', z)
                                                                   for l in NEST for a, z in NEST[l] if l in LANGS]):
        for d in depths:
            if b'var' in pre + post and d > 3000:
                d = 3000       # KB
            for api in (['Bytes'] if quick else ['Bytes', 'String', 'Minify']):
                cs.add(api, lang, opts='default', data=body, pre=pre, post=post, depth=d, origin='probe')
            if not quick or d == 10000:
                cs.add('Bytes', lang, opts=OPTS[lang][-1], data=body, pre=pre, post=post, depth=d, origin='probe')
    # ---- (F) pinned witnesses of known findings
    for w in vlib.known_cases('C10'):
        kw = dict(api=w['api'], lang=w['lang'], opts=w['opts'], prec=w['prec'], origin='pinned:' + w.get('what', '')[:2], allow_known=True)
        if 'file' in w:
            cs.add(file=os.path.join(vlib.REPO, w['file']), **kw)
        else:
            cs.add(data=w['in'].encode('latin1'), pre=w.get('pre', '').encode('latin1'), post=w.get('post', '').encode('latin1'),
                   depth=w.get('depth', 0), **kw)
    vlib.log('c10: %d calls prepared at %.1fs (%d excluded by known-finding tags)' % (len(cs.cases), time.time() - ctx.t0, cs.excluded))

    # ---- (RUN)
    procs = max(2, min(10, vlib.JOBS))
    t0 = time.time()
    evs = drive(ctx, exe, cs.cases, 'main', procs)
    vlib.log('c10: %d calls driven in %.1fs' % (len(evs), time.time() - t0))
    # ---- (TV)
    t0 = time.time()
    lines = [to_line(e) for e in evs]
    accepted, rejects = vlib.tlc_trace(ctx, 'C10Trace', 'C10Trace.cfg', lines, min_per_shard=2000)
    vlib.log('c10: TLC validated %d events in %.1fs (%d rejections)' % (len(lines), time.time() - t0, len(rejects)))
    why = collections.defaultdict(list)
    for pos, w in rejects:
        why[pos].append(w)
    if not only_pinned:
        selftest(ctx, lines)
    # every rejected call is re-run in a fresh driver process, one call at a time, and re-validated; a budget rejection (process CPU
    # time / allocation, never wall time) must repeat in three fresh runs out of three, otherwise it is not reported at all - a pinned
    # known witness that does not reproduce is simply silent
    bad = sorted(why)
    reproduced = 0
    if len(bad) > 1000:
        vlib.log('c10: %d rejected calls; only the first 1000 are re-run' % len(bad))
        ctx.coverage['rejections_not_rerun'] = len(bad) - 1000
    pending = list(bad[:1000])
    final = {}
    if pending:
        # one fresh process: every rejected call once more; calls rejected only for the budget two more times (three fresh runs in all)
        plan = []
        for pos in pending:
            plan += [pos] * (3 if why[pos] == ['WithinBudget'] else 1)
        sub = [dict(cs.cases[pos], id=k) for k, pos in enumerate(plan)]
        # fresh processes, one call at a time in each: the calls rejected for the budget get a process of their own (their three runs
        # one after the other), so that the expensive ones do not queue behind each other
        groups = collections.defaultdict(list)
        for k, pos in enumerate(plan):
            groups[pos if why[pos] == ['WithinBudget'] else -1].append(sub[k])
        with ThreadPoolExecutor(max_workers=min(8, len(groups))) as ex:
            parts = list(ex.map(lambda a: run_shard(ctx, exe, a[1], 'rerun-%d' % a[0]), enumerate(groups.values())))
        byid = {e['id']: e for part in parts for e in part}
        ev1 = [byid[k] for k in range(len(sub))]
        a1, r1 = vlib.tlc_trace(ctx, 'C10Trace', 'C10Trace.cfg', [to_line(e) for e in ev1])
        w1 = collections.defaultdict(list)
        for k, w in r1:
            w1[k].append(w)
        runs = collections.defaultdict(list)
        for k, pos in enumerate(plan):
            runs[pos].append(k)
        for pos, ks in runs.items():
            if all(k in w1 for k in ks):          # rejected in every fresh run
                worst = min(ks, key=lambda k: ev1[k]['cpu_us'])
                final[pos] = (ev1[worst], sorted(set(w for k in ks for w in w1[k])))
    for pos in sorted(final):
        e1, ws = final[pos]
        c = cs.cases[pos]
        reproduced += 1
        ctx.report(cs.ident(c), describe(c, e1, ws), dict(case=c if 'file' not in c or c['file'].startswith(vlib.REPO) else None,
                                                        event={k: v for k, v in e1.items() if k not in ('orig',)}))
        if only_pinned:
            print('PINNED-FAILS %s' % json.dumps(dict(ident=cs.ident(c), key=vlib.case_key(cs.ident(c)))))
    ctx.coverage['rejections'] = len(bad)
    ctx.coverage['rejections_reproduced'] = reproduced

    # ---- evidence
    per = collections.Counter()
    nontrivial = set()
    for c, e in zip(cs.cases, evs):
        per['%s:%s' % (e['api'], e['outcome'])] += 1
        per['origin:' + c['origin'].split(':')[0]] += 1
        if e['outcome'] == 'err' or c['origin'].split(':')[0] in ('model', 'mut', 'mutbig', 'probe', 'late-error'):
            nontrivial.add((c['api'], c['lang'], c['opts'], c['prec'], e['orig_sha'], c.get('depth', 0)))
    worst = collections.defaultdict(lambda: [0.0, 0.0])
    for e in evs:
        if e['n'] >= 10000 and e['outcome'] in ('ok', 'err'):
            w = worst[e['api'] + ':' + e['lang']]
            w[0] = max(w[0], round(e['cpu_us'] / e['n'], 3))
            w[1] = max(w[1], round((e['alloc'] + e['stack']) / e['n'], 1))
    samples = []
    for pos in vlib.sample(list(range(len(evs))), 8, rnd):
        c, e = cs.cases[pos], evs[pos]
        samples.append(dict(api=e['api'], lang=e['lang'], opts=e['opts'], prec=e['prec'], origin=c['origin'], n=e['n'], depth=c.get('depth', 0),
                            input=(bytes(c['in'])[:60].decode('latin1') if 'in' in c else c.get('file', '')), outcome=e['outcome'],
                            cpu_us=e['cpu_us'], alloc=e['alloc']))
    ctx.coverage.update(dict(
        traces_validated_against_impl=accepted,
        evaluations=len(evs),
        distinct_nontrivial=len(nontrivial),
        by_kind=dict(per),
        worst_cost_per_input_byte_over_10kB={k: dict(cpu_us=v[0], bytes=v[1]) for k, v in sorted(worst.items())},
        generator_exclusions_applied=cs.excluded,
        states=ctx.mc['states'], transitions=ctx.mc['transitions'],
        exhaustive_bound='every document reachable from the %d seed documents by %s mutation operator(s) (Totality generator, TLC state dump), '
                         'each with every entry point of its language' % (len(SEEDS), '1' if quick else '<= 2 (second operator: truncate, delete, swap, nest)'),
        rule='a case is (entry point, language, option set, precision, input bytes, nesting depth); inputs: TLC-enumerated mutants of the model '
             'documents, repository corpora / benchmarks / test inputs, seeded byte mutations and splices of those, late-error documents, nesting and '
             'repetition probes to depth %d; non-trivial = the call returned an error or the input is a mutant / probe. Generator exclusion '
             '(known finding): KB more than 3000 var statements in one document (KA, Bytes calls that can fail, is fixed in /repo 35cd1c2 '
             'and no longer excluded)' % depths[-1],
        samples=samples,
    ))
    ctx.assumptions += [
        'budgets are linear and generous: process CPU time <= 250 ms + 5 us/byte, allocation + stack growth <= 48 MB + 600 bytes/byte; CPU time '
        '(getrusage) is used instead of wall time so that machine load does not decide; a budget rejection counts only if three fresh runs all exceed',
        'one call at a time per driver process; wall deadline 30 s + 40 us/byte only detects hangs; a dead driver process is attributed to the call in flight',
        'level: exploration - no coverage-guided search; inputs nobody thought of are reached only as far as grammar-aware mutation reaches them',
    ]
    ctx.level = 'exploration'


def replay(ctx, obj):
    exe = vlib.build_harness(ctx, 'c10')
    i = obj['case']
    cs = Cases(ctx)
    kw = dict(api=i['api'], lang=i['lang'], opts=i['opts'], prec=i['prec'], origin='replay', allow_known=True)
    if 'file' in i:
        cs.add(file=os.path.join(vlib.REPO, i['file']), **kw)
    else:
        cs.add(data=i['in'].encode('latin1'), pre=i.get('pre', '').encode('latin1'), post=i.get('post', '').encode('latin1'), depth=i.get('depth', 0), **kw)
    c = cs.cases[0]
    e = run_shard(ctx, exe, [c], 'replay')[0]
    a, r = vlib.tlc_trace(ctx, 'C10Trace', 'C10Trace.cfg', [to_line(e)])
    print(json.dumps({k: v for k, v in e.items() if k != 'orig'}))
    if r:
        print('VIOLATION property=C10 replay=given  (%s)' % describe(c, e, [w for _, w in r]))
        return 1
    print('holds')
    return 0


META = dict(
    category='exploration',
    text='Totality is a TLA+ call/return machine (Idle -Call-> Running -Return-> Idle, no Panic/Timeout transition) over model documents whose '
         'mutation operators (truncate at every byte, duplicate/delete/swap token, splice, inject byte, nest d times) are spec actions; TLC '
         'enumerates every mutant within the bound and the real entry points (six minifiers via Minify/Bytes/String, Number, Decimal, Mediatype, '
         'DataURI) are called on each with the option extremes. TLC validates every recorded call against NoPanic, WithinBudget (linear CPU and '
         'allocation bounds) and ErrGivesOriginal; a hazard configuration proves the last clause non-vacuous at design level.',
    design_ref='DESIGN.md section 4, C10',
    note='Claimed level: exploration. Exhaustive only over the TLC-enumerated mutants of the model documents; corpora, random mutation and probes '
         'beyond that. No coverage-guided fuzzing. Budgets are generous linear bounds on CPU time and allocation.',
    technique='TLA+ call/return machine with mutation operators as actions, TLC-enumerated inputs, TLC trace validation of call events',
)


def _regen_known():
    fails = {}
    for line in sys.stdin:
        if line.startswith('PINNED-FAILS '):
            o = json.loads(line[len('PINNED-FAILS '):])
            fails[json.dumps(o['ident'], sort_keys=True)] = o['key']
    rows = vlib.known_cases('C10')
    keep, lines = [], []
    ctx = type('X', (), {'path': None})()
    for w in rows:
        c = dict(api=w['api'], lang=w['lang'], opts=w['opts'], prec=w['prec'])
        if 'file' in w:
            c['file'] = os.path.join(vlib.REPO, w['file'])
        else:
            c['in'] = list(w['in'].encode('latin1'))
            if w.get('depth'):
                c['pre'], c['post'], c['depth'] = list(w['pre'].encode('latin1')), list(w['post'].encode('latin1')), w['depth']
        k = json.dumps(Cases.ident(None, c), sort_keys=True)
        if k in fails:
            keep.append(w)
            lines.append('known: property=C10 key=%s %s [%s %s options %s prec %d, witness %s]' % (
                fails[k], w['what'], w['api'], w['lang'], w['opts'], w['prec'],
                w.get('file') or json.dumps((w.get('pre', '') + ' x%d ' % w['depth'] if w.get('depth') else '') + w['in'])))
    vlib.write_ndjson(os.path.join(vlib.ROOT, 'known', 'C10.ndjson'), keep)
    with open(os.path.join(vlib.ROOT, 'known', 'C10.txt'), 'w') as f:
        f.write('# C10 known findings: generated by tools/props/c10.py from known/C10.ndjson; never written at run time\n')
        f.write('\n'.join(lines) + '\n')
        f.write('\n'.join(FIXED_NOTES[k] for k in sorted(FIXED_NOTES)) + '\n')
    print('kept %d of %d witnesses' % (len(keep), len(rows)))


if __name__ == '__main__':
    if '--seeds' in sys.argv:
        open(os.path.join(vlib.SPEC, 'TotalitySeeds.tla'), 'w').write(render_seeds())
    else:
        _regen_known()
