"""C13  A shared minifier registry is safe and deterministic under concurrency.

MC : spec/Conc.tla - design model of one shared minify.M (faithful sync.RWMutex with pending
     writer, nested RLock for embedded content, shared locations literal/pattern/package-level
     slices/option structs/exec.Cmd.Args, every access a labelled step) checked exhaustively
     for NoBlocking, SharedReadOnly, Deterministic, LockSane (+ CompletesAlone) inside the
     property's domain; spec/ConcNeg_*.cfg are negative controls (one design switch flipped,
     or registration concurrent with use) where TLC MUST find the named violation.
GEN: TLC -simulate on the same model prints complete histories of visible events
     (start/parked/release/done) = gate schedules: who sits inside which (possibly nested)
     minifier holding the read lock while which other call must complete.
RUN: harness/cmd/c13 (built with -race) replays the schedules on ONE fully registered registry
     with SHARED option structs, runs all ordered pairs of media types (sequentially and
     concurrently), stress runs goroutines x GOMAXPROCS in {2,8,64} x {1,4,16} with parked
     readers, a sequential pass on one registry, and the reference calls a second time in a
     second process.
TV : spec/ConcTrace.tla - TLC validates every recorded history: it must be a behaviour of Conc
     (macro steps), every result must equal the sequential reference, option structs/exec.Cmd
     must render identically before and after, no race report, no expired deadline.
"""
import base64
import hashlib
import json
import os
import re
import threading
from concurrent.futures import ThreadPoolExecutor

import vlib

PID = 'C13'
ENTRIES = ['Minify', 'MinifyMimetype', 'Bytes', 'String', 'Reader', 'Writer']

LONG = {
    'Deterministic': 'a call on the shared registry returned bytes different from the sequential reference call '
                     '(same entry point, media type, input and options on a fresh registry)',
    'Deterministic(repeat)': 'repeating the sequential reference call (same or new process) gave different bytes',
    'SharedReadOnly': 'a user-supplied option struct / exec.Cmd renders differently after the calls than before',
    'SharedReadOnly(sequential)': 'a single sequential call changed a user-supplied option struct / exec.Cmd',
    'NoBlocking': 'a call did not make progress before the deadline although nothing it depends on was outstanding '
                  '(only OTHER calls were parked inside gates, or nothing else was running at all)',
    'NoDataRace': 'the Go race detector reported a data race inside the code under test',
    'Crash': 'the process died inside the code under test while the scenario ran (Go runtime fatal error such as concurrent '
             'map access, or a panic in a worker goroutine)',
}

# ------------------------------------------------------------------------------------------
# documents: shape of spec/Conc.tla -> concrete (media type, bytes); %d = gate id
# ------------------------------------------------------------------------------------------
SVG0 = (b'<?xml version="1.0"?><svg xmlns="http://www.w3.org/2000/svg" xmlns:xlink="http://www.w3.org/1999/xlink" '
        b'width="100.0" height="50.50"><!-- c --><g fill="#ff0000" transform="translate(10.000 20.50)">'
        b'<path d="M 10.12345678 10.0 L 20.55555 20.0 L 30 30 Z"/><rect x="0" y="0" width="10.00" height="0010"/>'
        b'<circle cx="5.123456789" cy="5" r="2.50"/></g></svg>')
SVG1 = (b'<svg xmlns="http://www.w3.org/2000/svg" viewBox="0 0 10 10"><style>.a { fill: #ff0000; stroke-width: 1.250px; margin: 0.10em 0px }'
        b'</style><path class="a" style="fill: rgb(0,0,255); opacity: 0.500" d="M0 0 H 10.555555 V 10 h -10 z"/>'
        b'<text x="1.0" y="2.0"> a  b </text></svg>')
SVG1B = (b'<svg xmlns="http://www.w3.org/2000/svg"><style><![CDATA[ rect { fill : #00ff00 ; width : 10.0px } ]]></style>'
         b'<rect width="1e1" height="10.10101010"/><polygon points="0,0 10.5,0.25 10,10"/></svg>')
CSS = [
    b'a { color: #ff0000; background: url("data:image/svg+xml;base64,PHN2ZyB4bWxucz0iaHR0cDovL3d3dy53My5vcmcvMjAwMC9zdmciPjwvc3ZnPg==") }\n'
    b'b > c { margin: 0px 0px 0px 0px; font-weight: bold; transition: all 0.50s ease-in-out 0s }',
    b'@media screen and (min-width: 100.0px) { .x::after { content: "a  b"; width: calc( 100% - 10.0px ); color: rgba(255, 0, 0, 1.0) } }\n'
    b'@import url( "foo.css" ); .y { background: URL(img.png) no-repeat 0 0; transform: rotate(45.0deg) translate(1.123456px, 0.00) }',
    b':root{--a: 1.0px ;--b:{x}} h1,h2 , h3{font:normal 400 12.0px/1.50 "Helvetica Neue",Arial,sans-serif;border:none;outline:0 none}'
    b' .z{background-image:url(data:text/plain;charset=us-ascii,hello%20world);padding:+.50em -0.0em}',
]
CSSI = [b'color: #ff0000; margin: 0px 0px 0px 0px; background: url( "x.png" )', b'font-weight: normal; width: 10.0000px; color: rgb(255,255,255)']
JS = [
    b'function fooBar(argumentOne, argumentTwo) { var localValue = argumentOne + argumentTwo * 1000.0; if (localValue === undefined) '
    b'{ return true; } else { return localValue != 0.500; } }\nvar globalThing = fooBar(1, 2);',
    b'(function(){ "use strict"; let counter = 0; const inc = (delta) => { counter += delta; return counter; }; '
    b'for (var i = 0; i < 10; i++) { inc(i); } class A extends B { constructor(x){ super(x); this.x = x } get y(){ return `t${this.x}` } } '
    b'window.result = [inc(1), new A(2).y, 0xFF, 1e3, /re+g/gi.test("x")]; })();',
    b'var a = {"key": 1, other: [1,2,3], fn: function(alpha, beta){ while(true){ if(alpha) break; else continue } return beta }};\n'
    b'try { throw new Error("x" + "y") } catch (errorValue) { console.log(errorValue) } finally { a = null }',
]
JSI = [b'return doSomething(this, event) && false;', b'var local = 1; alert(local + 2.0)']
JSON = [
    b'{ "a" : [ 1.0 , 2.50 , 1e+3 , -0.0 , true , null ] , "b" : { "c" : "d e" , "e" : 1.000E-2 } }',
    b'[ { "@context" : "https://schema.org" , "@type" : "Thing" , "n" : 100000.00 } , [ ] , { } , "\\u00e9  x" ]',
]
XML = [
    b'<?xml version="1.0" encoding="UTF-8"?>\n<root  a = "1"   b=\'2\'>\n  <!-- comment -->\n  <item>  text &amp; more  </item>\n  <empty></empty>\n'
    b'  <![CDATA[ raw <data> ]]>\n</root>',
    b'<rss version="2.0"><channel><title> T </title><item><description><![CDATA[x]]></description></item></channel></rss>',
]
HTML0 = [
    b'<!DOCTYPE html>\n<html>\n<head>\n<meta charset="utf-8">\n<title> Title </title>\n</head>\n<body>\n<p class=" a  b "> Hello   <b> world </b> </p>\n'
    b'<ul>\n<li> one </li>\n<li> two </li>\n</ul>\n<input type="text" value="" disabled="disabled">\n<a href="HTTP://example.com/x">l</a>\n</body>\n</html>',
    b'<table><thead><tr><th>a</th></tr></thead><tbody><tr><td> b </td></tr></tbody></table><pre>  keep  </pre><!-- c --><textarea>  x </textarea>',
]
HTMLC = [
    b'<!doctype html><html><head><style> a { color: #ff0000; margin: 0px 0px } </style></head><body><p style="color: #00ff00; padding: 0.0px"> x </p>'
    b'<script> var longName = 1 + 2; function f(argument){ return argument * 2.0 } </script><button onclick="return f(this) && false;">b</button>'
    b'<img src="data:image/png;base64,iVBORw0KGgo="><a href="data:text/plain;charset=us-ascii,hello world">d</a></body></html>',
    b'<link rel="stylesheet" type="text/css" href="x.css"><style type="text/css" media="all">@media print { b { display: none } }</style>'
    b'<script type="text/javascript">document.write("<b>" + 1 + "</b>")</script><script type="application/ld+json">{ "a" : 1.0 }</script>'
    b'<div style="background: url(\'data:image/svg+xml,%3Csvg%20xmlns=%22http://www.w3.org/2000/svg%22%3E%3C/svg%3E\')" onmouseover="javascript:go( 1 )">z</div>',
]
HTMLS = [
    b'<!doctype html><p>before <svg xmlns="http://www.w3.org/2000/svg" width="10.0" height="10.0"><style> .a { fill: #ff0000 } </style>'
    b'<path class="a" d="M 0 0 L 10.0 10.0 z"/></svg> after</p><math><mi> x </mi><mo>+</mo><mn>1.0</mn></math>',
    b'<div><svg viewBox="0 0 1 1"><style>rect{fill:#000000}</style><rect width="1.000" height="1"/></svg><svg><g><circle r="1.50"/></g></svg></div>'
    b'<img src="data:image/svg+xml;base64,PHN2ZyB4bWxucz0iaHR0cDovL3d3dy53My5vcmcvMjAwMC9zdmciPjxzdHlsZT5he2NvbG9yOiNmZjAwMDB9PC9zdHlsZT48L3N2Zz4=">',
]
PAY = [b'pay  load <x> 1.0', b'second   payload { }']

HTMLS_ONLY = (b'<!doctype html><p>before <svg xmlns="http://www.w3.org/2000/svg" width="10.0" height="10.0"><style> .a { fill: #ff0000 } </style>'
              b'<path class="a" d="M 0 0 L 10.0 10.0 z"/></svg> after</p>')
SHAPE_DOCS = {
    # shape of spec/Conc.tla -> documents whose nested registry calls are exactly that shape (checked on every run by the
    # instrumented "shape" scenario: DRIFT:shape otherwise)
    'css': [('text/css', CSS[1]), ('text/css', CSS[2]), ('text/css; charset=utf-8', CSS[1])],
    'cssD': [('text/css', CSS[0]), ('text/css; charset=utf-8', CSS[0])],
    'cssi': [('text/css; inline=1', d) for d in CSSI],
    'js': [('application/javascript', d) for d in JS] + [('text/javascript', JS[0]), ('text/x-ecmascript', JS[1])],
    'jsi': [('application/javascript; inline=1', d) for d in JSI],
    # x-cmdre/...+json and x-gatere/...+xml match two registered patterns: the first registered one must serve them
    'json': [('application/json', d) for d in JSON] + [('application/ld+json', JSON[1]), ('x-cmdre/feed+json', JSON[0])],
    'xml': [('text/xml', d) for d in XML] + [('application/rss+xml', XML[1]), ('text/xml; charset=utf-8', XML[0]),
                                              ('x-gatere/doc+xml', XML[1])],
    'upper': [('a+xml/x-upper', XML[0]), ('text/x-upper', PAY[0])],
    'svg0': [('image/svg+xml', SVG0)],
    'svg1': [('image/svg+xml', SVG1B)],
    'svg2': [('image/svg+xml', SVG1)],
    'html0': [('text/html', d) for d in HTML0],
    'htmlC': [('text/html', HTMLC[0]), ('text/html; charset=utf-8', HTMLC[0])],
    'htmlD': [('text/html', HTMLC[1])],
    'htmlS': [('text/html', HTMLS_ONLY)],
    'htmlM': [('text/html', HTMLS[0])],
    'htmlS3': [('text/html', HTMLS[1])],
    'cmd': [('x-cmd/cat', PAY[0]), ('x-cmdre/anything', PAY[1])],
    'none': [('text/plain', PAY[0]), ('image/png', PAY[1])],
    # AddCmd with $in / $in+$out placeholders (fixed in /repo by fd040d4; ordinary members of the registry since)
    'cmdin': [('x-cmd/in', PAY[0]), ('x-cmd/in', CSS[1]), ('x-cmdio/copy', PAY[1]), ('x-cmdio/other; a=b', JSON[0])],
    # $out only (stdin in, result file out), literal and pattern-served, with and without an extension
    'cmdout': [('x-cmd/out', PAY[0]), ('x-cmd/out', CSS[1]), ('x-cmdout/upper', PAY[1]), ('x-cmdout/v; q=1', JSON[0])],
    # calls that FAIL AFTER the minifier has written output (css, xml, svg never fail on their own; js fails before output)
    'jsonF': [('application/json', b'[1, 2, 3] x'), ('application/json', b'{"a": 1.0, "b": }'), ('application/ld+json', b'{"k": [1, 2, {"z": tru')],
    'htmlF': [('text/html', b'<p> text </p><script>var = ;</script><p> more </p>')],
    'htmlFa': [('text/html', b'<div style="color: red">x</div><button onclick="var = ;">b</button>')],
    'htmlFj': [('text/html', b'<p>a</p><script type="application/ld+json">{"a": }</script>')],
    'userF': [('text/x-failafter', PAY[0]), ('x-failre/any; a=1', CSS[1])],
    'cmdF': [('x-cmd/fail', PAY[1]), ('x-cmd/fail', JSON[0])],
    # Match, then the driver invokes the returned function (no outer read hold)
    'matchL': [('text/html', HTML0[0]), ('text/html; charset=utf-8', HTML0[1])],
    'matchC': [('text/css; inline=1', CSSI[0])],
    'matchS': [('image/svg+xml', SVG1)],
    'matchP': [('text/xml; charset=utf-8', XML[0]), ('x-gatere/doc+xml', XML[0])],
    'matchJ': [('application/ld+json', JSON[0])],
    'matchJi': [('x-cmdre/feed+json; inline=1', JSON[1])],
    'matchJs': [('text/x-ecmascript', JS[0])],
    'matchU': [('a/x-upper', PAY[0]), ('a+json/x-upper', JSON[0])],
    'matchCmd': [('x-cmdre/q', PAY[0]), ('x-cmd/cat', PAY[1])],
    'matchN': [('text/plain', PAY[0])],
}
# shapes ending in H: the same documents through m.Writer / m.Reader with the pipe stalled by the driver, so that the
# wrapper's worker goroutine is parked INSIDE the real minifier holding the registry's read lock
HOLD_SHAPES = {'cssH': 'css', 'cssDH': 'cssD', 'jsH': 'js', 'jsonH': 'json', 'xmlH': 'xml', 'svg1H': 'svg1',
               'html0H': 'html0', 'htmlCH': 'htmlC', 'htmlSH': 'htmlS'}
MATCH_ALL = ['matchL', 'matchC', 'matchS', 'matchP', 'matchJ', 'matchJi', 'matchJs', 'matchU', 'matchCmd', 'matchN']
GATE_DOCS = {
    'htmlG': [('text/html', b'<!doctype html><p> a <script type="application/x-gate;id=%d">pay  load</script> b</p>'),
              ('text/html', b'<div><style type="application/x-gate; id=%d"> st yle </style></div>'),
              ('text/html', b'<p>i<img src="data:application/x-gate;id=%d,in%%20an%%20attribute"></p>')],
    'htmlGre': [('text/html', b'<ul><li>x<script type="x-gatere/sub;id=%d">var a  =  1</script></ul>')],
    'cssG': [('text/css', b'a { background: url("data:application/x-gate;id=%d,pay%%20load") ; color: #ff0000 }')],
    'svgG': [('image/svg+xml', b'<svg xmlns="http://www.w3.org/2000/svg"><style>a { fill: url("data:application/x-gate;id=%d,zz") }</style>'
                               b'<path d="M 0 0 L 1.0 1.0 z"/></svg>')],
    'htmlCG': [('text/html', b'<p style="background: url(\'data:x-gatere/s;id=%d,q\'); margin: 0px"> t </p>')],
    'htmlSG': [('text/html', b'<p>s</p><style> a { background: url("data:application/x-gate;id=%d,in%%20style") } </style>')],
    'htmlIG': [('text/html', b'<iframe><p> in  frame </p><script type="application/x-gate;id=%d">fr ame</script></iframe>')],
    'htmlVG': [('text/html', b'<p>v <svg xmlns="http://www.w3.org/2000/svg"><style>a { fill: url("data:application/x-gate;id=%d,zz") }</style>'
                             b'<path d="M 0 0 L 1.0 1.0 z"/></svg></p>')],
    'gate': [('application/x-gate; id=%d', PAY[0])],
    'gatere': [('x-gatere/q; id=%d', PAY[1]), ('x-gatere/other;id=%d', PAY[0])],
    'matchG': [('application/x-gate; id=%d', PAY[1])],          # parked inside the function Match returned: no read hold at all
    'matchGre': [('x-gatere/m; id=%d', PAY[0])],
}
PAIR_SHAPES = ['html0', 'htmlC', 'htmlD', 'htmlS', 'htmlS3', 'css', 'cssD', 'cssi', 'js', 'json', 'xml', 'svg0', 'svg2', 'cmd', 'cmdin', 'cmdout', 'none', 'jsonF', 'htmlF']
PARK_SHAPES = sorted(GATE_DOCS) + sorted(HOLD_SHAPES)
MAXGATE = 40


class Pool:
    """documents by content hash, calls by shape"""

    def __init__(self):
        self.docs = {}
        self.by_shape = {}
        for sh, lst in SHAPE_DOCS.items():
            self.by_shape[sh] = [(mt, self.add(b)) for mt, b in lst]
        self.gate = {}
        for sh, lst in GATE_DOCS.items():
            for gid in range(1, MAXGATE + 1):
                self.gate[(sh, gid)] = []
                for mt, b in lst:
                    mt2 = mt % gid if '%d' in mt else mt
                    b2 = b % gid if b'%d' in b else b
                    self.gate[(sh, gid)].append((mt2, self.add(b2)))
        self.extra = []      # (mt, docid) from the repository's own tests

    def add(self, b):
        i = 'd' + hashlib.sha1(b).hexdigest()[:10]
        self.docs[i] = b
        return i

    def docs_line(self, ids=None):
        ids = sorted(self.docs) if ids is None else sorted(set(ids))
        return dict(kind='docs', docs=[dict(id=i, b=base64.b64encode(self.docs[i]).decode()) for i in ids])

    def call(self, rnd, sh, gid=0, entry=None):
        if sh in HOLD_SHAPES:
            mt, d = rnd.choice(self.by_shape[HOLD_SHAPES[sh]])
            return dict(e=rnd.choice(['Writer', 'Reader']), mt=mt, doc=d, gate=gid, sh=sh, hold=True,
                        at=rnd.choice([1, 1, 6, 14, 25, 40, 70, 120]))
        if sh in GATE_DOCS:
            mt, d = rnd.choice(self.gate[(sh, gid)])
        else:
            mt, d = rnd.choice(self.by_shape[sh])
            gid = 0
        if sh.startswith('match'):
            e = 'Match'
        else:
            e = entry or rnd.choice(ENTRIES)
        return dict(e=e, mt=mt, doc=d, gate=gid, sh=sh)


REPO_MT = {'html': ['text/html'], 'css': ['text/css'], 'js': ['application/javascript', 'text/javascript'],
           'json': ['application/json'], 'svg': ['image/svg+xml'], 'xml': ['text/xml', 'application/atom+xml']}


# documents that make a minifier fail (the error text and the partial output must be as deterministic as a result) or
# that nest differently from every catalogued shape; used by the sequential pass and the stress runs only
HAND_EXTRA = [
    ('application/javascript', b'var = ;'),
    ('text/javascript', b'function f( { return 1 }'),
    ('text/html', b'<p>x<script>var = ;</script><style>a{b:c}</style>'),
    ('text/html', b'<div style="color:red" onclick="a b c">t</div><svg><style>x{y:z}</style></svg>'),
    ('application/json', b'{"a": }'),
    ('application/json', b'[1, 2'),
    ('text/css', b'a{b:c'),
    ('text/css', b'a { background: url(data:image/svg+xml;base64,!!!notbase64) }'),
    ('text/xml', b'<a><b></a>'),
    ('image/svg+xml', b'<svg><path d="M 0 0 L"/><style>a{b:</style>'),
    ('image/svg+xml', b'<svg xmlns="http://www.w3.org/2000/svg"><script>var  a = 1;</script><style>b{c:d}</style></svg>'),
    ('text/html', b'<iframe><p> a  b </p><style>i{f:r}</style></iframe><script type=module>import  x  from "y"</script>'),
]


def repo_docs(ctx, pool, per_lang):
    """inputs of the repository's own table-driven tests (first string of each row)"""
    n = 0
    for mt, b in HAND_EXTRA:
        pool.extra.append((mt, pool.add(b)))
    for lang, mts in REPO_MT.items():
        try:
            rows = vlib.test_inputs(ctx, lang)
        except vlib.Infra:
            raise
        ins = sorted(set(r['strings'][0] for r in rows if r.get('strings') and 0 < len(r['strings'][0]) < 3000))
        ctx.rnd.shuffle(ins)
        for s in ins[:per_lang]:
            b = s.encode('utf-8', 'surrogatepass') if isinstance(s, str) else bytes(s)
            if b'x-gate' in b:
                continue
            pool.extra.append((ctx.rnd.choice(mts), pool.add(b)))
            n += 1
    return n


# ------------------------------------------------------------------------------------------
# schedules from the TLC model
# ------------------------------------------------------------------------------------------
HIST_RE = re.compile(r'"HIST",\s*"((?:[^"\\]|\\.)*)"', re.S)


def histories(ctx, cfg, num, seed, depth=300):
    r = run_tlc(ctx, 'Conc', cfg + '.cfg', workers=1, simulate='num=%d' % num, depth=depth, seed=seed, timeout=900, heap='2g')
    if r['errors'] or r['invariant_violations'] or not r['completed']:
        raise vlib.Infra('history generation (%s) failed:\n%s' % (cfg, r['out'][-2500:]))
    out = []
    for m in HIST_RE.finditer(r['out']):
        s = json.loads('"' + m.group(1) + '"')
        out.append(json.loads(s))
    if not out:
        raise vlib.Infra('no histories printed by %s' % cfg)
    return out


def gate_id(g, k):
    return (g - 1) * 4 + k


def scenario_from_history(pool, rnd, hist, sid, optset, procs):
    ng = max(e['g'] for e in hist)
    progs = [[] for _ in range(ng)]
    for e in hist:
        if e['ev'] == 'start':
            g, k = e['g'], e['k']
            assert len(progs[g - 1]) == k - 1
            progs[g - 1].append(pool.call(rnd, e['sh'], gate_id(g, k)))
    script = [dict(op=e['ev'], g=e['g'], k=e['k']) for e in hist]
    return dict(kind='sched', id=sid, optset=optset, gomaxprocs=procs, progs=progs, script=script)


def overlap_nontrivial(script):
    """some call returned while another goroutine was parked, or two calls were in flight together"""
    parked, running = set(), set()
    for op in script:
        g = op['g']
        if op['op'] == 'start':
            if running - {g}:
                return True
            running.add(g)
        elif op['op'] == 'parked':
            parked.add(g)
        elif op['op'] == 'release':
            parked.discard(g)
        elif op['op'] == 'done':
            if parked - {g}:
                return True
            running.discard(g)
    return False


def pair_scenarios(pool, rnd, quick, optsets, sid0):
    """every ordered pair of media-type shapes: sequentially (same goroutine, two goroutines), concurrently,
    and with a third goroutine parked two read-holds deep (html -> gate) for the whole time"""
    out = []
    S = lambda g, k: dict(op='start', g=g, k=k)
    D = lambda g, k: dict(op='done', g=g, k=k)
    P = lambda g, k: dict(op='parked', g=g, k=k)
    R = lambda g, k: dict(op='release', g=g, k=k)
    n = 0
    for a in PAIR_SHAPES:
        for b in PAIR_SHAPES:
            variants = ['same', 'two', 'conc', 'parked']
            if quick:
                variants = ['same', rnd.choice(['two', 'conc', 'parked'])]
            for v in variants:
                o = rnd.choice(optsets)
                ca, cb = pool.call(rnd, a), pool.call(rnd, b)
                if v == 'same':
                    progs, script = [[ca, cb]], [S(1, 1), D(1, 1), S(1, 2), D(1, 2)]
                elif v == 'two':
                    progs, script = [[ca], [cb]], [S(1, 1), D(1, 1), S(2, 1), D(2, 1)]
                elif v == 'conc':
                    progs, script = [[ca], [cb]], [S(1, 1), S(2, 1), D(2, 1), D(1, 1)]
                else:
                    cg = pool.call(rnd, rnd.choice(PARK_SHAPES), gate_id(3, 1))
                    progs = [[ca], [cb], [cg]]
                    script = [S(3, 1), P(3, 1), S(1, 1), S(2, 1), D(1, 1), D(2, 1), R(3, 1), D(3, 1)]
                out.append(dict(kind='sched', id='%s%d' % (sid0, n), optset=o, gomaxprocs=rnd.choice([1, 4, 16]),
                                progs=progs, script=script, pair=[a, b, v]))
                n += 1
    return out


# Match, Minify, Match on the same media type ("Match results stable before/after Minify calls"), first of all on
# the regexp-registered types: (media type, document, match shape, minify shape)
MMM = [('text/xml', XML[0], 'matchP', 'xml'), ('application/rss+xml', XML[1], 'matchP', 'xml'),
       ('x-gatere/doc+xml', XML[0], 'matchP', 'xml'), ('application/ld+json', JSON[0], 'matchJ', 'json'),
       ('x-cmdre/feed+json', JSON[0], 'matchJ', 'json'), ('text/x-ecmascript', JS[0], 'matchJs', 'js'),
       ('application/javascript', JS[1], 'matchJs', 'js'), ('a/x-upper', PAY[0], 'matchU', 'upper'),
       ('x-cmdre/q', PAY[0], 'matchCmd', 'cmd'), ('text/html', HTML0[0], 'matchL', 'html0'),
       ('image/svg+xml', SVG1, 'matchS', 'svg2'), ('text/css; inline=1', CSSI[0], 'matchC', 'cssi'),
       ('text/plain', PAY[0], 'matchN', 'none')]


def mmm_scenarios(pool, rnd, quick, optsets, sid0):
    """every MMM row: on one goroutine (Match, Minify, Match), on two goroutines in sequence, and with the Minify
    running on a second goroutine between/alongside the two Match calls"""
    out = []
    S = lambda g, k: dict(op='start', g=g, k=k)
    D = lambda g, k: dict(op='done', g=g, k=k)
    for mt, b, msh, sh in MMM:
        d = pool.add(b)
        mc = dict(e='Match', mt=mt, doc=d, gate=0, sh=msh)
        for v in (['same', 'conc'] if quick else ['same', 'two', 'conc', 'same']):
            cc = dict(e=rnd.choice(ENTRIES), mt=mt, doc=d, gate=0, sh=sh)
            if v == 'same':
                progs, script = [[dict(mc), cc, dict(mc)]], [S(1, 1), D(1, 1), S(1, 2), D(1, 2), S(1, 3), D(1, 3)]
            elif v == 'two':
                progs, script = [[dict(mc), dict(mc)], [cc]], [S(1, 1), D(1, 1), S(2, 1), D(2, 1), S(1, 2), D(1, 2)]
            else:
                progs, script = [[dict(mc), dict(mc)], [cc, dict(cc)]], [S(1, 1), S(2, 1), D(1, 1), D(2, 1), S(2, 2), S(1, 2), D(2, 2), D(1, 2)]
            out.append(dict(kind='sched', id='%s%d' % (sid0, len(out)), optset=rnd.choice(optsets), gomaxprocs=rnd.choice([1, 4, 16]),
                            progs=progs, script=script, pair=[msh, sh, 'mmm-' + v]))
    return out


COLD_SHAPES = ['js', 'jsi', 'css', 'cssD', 'cssi', 'json', 'xml', 'svg0', 'svg2', 'html0', 'htmlC', 'htmlD', 'htmlS', 'htmlM',
               'htmlS3', 'cmd', 'cmdin', 'cmdout', 'upper', 'matchS', 'matchJs']


def cold_scenarios(pool, rnd, quick, optsets):
    """cold start: each scenario is the FIRST thing a fresh driver process does (no reference call before it): N
    goroutines, released together, make their first call of one media type (directly, or below html / svg / Match)
    at the same moment - what unsynchronised lazy initialisation of package-level state needs in order to show"""
    out = []
    for sh in COLD_SHAPES:
        for rep in range(1 if quick else 3):
            n = rnd.choice([2, 4, 8]) if not sh.startswith('cmd') else rnd.choice([2, 4])
            progs = []
            for g in range(n):
                first = pool.call(rnd, sh)
                more = [pool.call(rnd, rnd.choice(COLD_SHAPES[:15])) for _ in range(2)]
                progs.append([first] + more)
            out.append(dict(kind='cold', id='c%d' % len(out), optset=rnd.choice(optsets), gomaxprocs=rnd.choice([4, 16]),
                            progs=progs, parked=[], cold=sh))
    return out


FAIL_SHAPES = ['jsonF', 'htmlF', 'htmlFa', 'htmlFj', 'userF', 'cmdF']
GOOD_AFTER = ['css', 'cssi', 'js', 'json', 'xml', 'svg0', 'html0', 'htmlC', 'upper', 'cmd', 'none']


def fail_scenarios(pool, rnd, quick, optsets, sid0):
    """a call that fails after output, for every entry point: (good, failing, good) with the same entry point on one
    goroutine, (failing, good) on two goroutines in sequence, and a goroutine that only fails beside goroutines that
    pass only well-formed input (leftovers of a failed call must never reach another call's result)"""
    out = []
    S = lambda g, k: dict(op='start', g=g, k=k)
    D = lambda g, k: dict(op='done', g=g, k=k)
    for fsh in FAIL_SHAPES:
        for e in ENTRIES:
            for v in (['gfg'] if quick else ['gfg', 'two', 'gfg']):
                g1 = pool.call(rnd, rnd.choice(GOOD_AFTER), entry=e)
                g2 = pool.call(rnd, rnd.choice(GOOD_AFTER), entry=e)
                fc = pool.call(rnd, fsh, entry=e)
                if v == 'gfg':
                    progs, script = [[g1, fc, g2, dict(g1)]], [x for k in (1, 2, 3, 4) for x in (S(1, k), D(1, k))]
                else:
                    progs, script = [[fc, dict(fc)], [g1, g2]], [S(1, 1), D(1, 1), S(2, 1), D(2, 1), S(1, 2), D(1, 2), S(2, 2), D(2, 2)]
                out.append(dict(kind='sched', id='%s%d' % (sid0, len(out)), optset=rnd.choice(optsets), gomaxprocs=rnd.choice([1, 4, 16]),
                                progs=progs, script=script, pair=[fsh, e, 'fail-' + v]))
    # concurrently: goroutine 1 only fails, goroutines 2..4 only pass well-formed input, same entry point throughout
    for e in ENTRIES:
        for rep_ in range(1 if quick else 3):
            fails = [pool.call(rnd, rnd.choice(FAIL_SHAPES), entry=e) for _ in range(4)]
            goods = [[pool.call(rnd, rnd.choice(GOOD_AFTER), entry=e) for _ in range(4)] for _ in range(3)]
            progs = [fails] + goods
            script = []
            for k in (1, 2, 3, 4):
                script += [S(g, k) for g in (1, 2, 3, 4)] + [D(g, k) for g in (4, 3, 2, 1)]
            out.append(dict(kind='sched', id='%s%d' % (sid0, len(out)), optset=rnd.choice(optsets), gomaxprocs=rnd.choice([4, 16]),
                            progs=progs, script=script, pair=['fail', e, 'fail-conc']))
    return out


def call_pool(pool, rnd, optsets, quick):
    """calls used by the sequential pass and the stress runs"""
    calls = []
    for sh, lst in pool.by_shape.items():
        for mt, d in lst:
            if sh.startswith('match'):
                calls.append(dict(e='Match', mt=mt, doc=d, gate=0, sh=sh))
            else:
                es = ENTRIES if (not quick or sh in FAIL_SHAPES) else rnd.sample(ENTRIES, 3)
                for e in es:
                    calls.append(dict(e=e, mt=mt, doc=d, gate=0, sh=sh))
    for mt, d in pool.extra:
        for e in ([rnd.choice(ENTRIES)] if quick else rnd.sample(ENTRIES, 2)):
            calls.append(dict(e=e, mt=mt, doc=d, gate=0, sh=''))
    return calls


def stress_scenarios(pool, rnd, calls, quick, optsets):
    out = []
    n = 0
    nocmd = [c for c in calls if c['sh'] != 'cmd']
    for G in (2, 8, 64):
        for P in (1, 4, 16):
            for rep in range(1 if quick else 3):
                total = (360 if quick else 1800)
                per = max(4, total // G)
                progs = []
                for g in range(G):
                    # Match before and after Minify on pattern-served and literal types in every program
                    mid = [rnd.choice(calls if rnd.random() < 0.15 else nocmd) for _ in range(per)]
                    m1 = pool.call(rnd, rnd.choice(MATCH_ALL))
                    progs.append([m1] + mid + [dict(m1)])
                parked = []
                for i, sh in enumerate(rnd.sample(PARK_SHAPES, 5 if quick else 8)):
                    c = pool.call(rnd, sh, 30 + i)
                    parked.append(c)
                out.append(dict(kind='stress', id='x%d' % n, optset=rnd.choice(optsets), gomaxprocs=P, progs=progs, parked=parked))
                n += 1
    return out


# ------------------------------------------------------------------------------------------
# running the driver and validating
# ------------------------------------------------------------------------------------------
def calls_of(sc):
    out = list(sc.get('calls') or [])
    for p in sc.get('progs') or []:
        out += p
    out += sc.get('parked') or []
    return out


def base_scenarios(scens, sid='b'):
    """reference calls: every distinct (entry, media type, document, option set) used by scens"""
    per = {}
    for sc in scens:
        for c in calls_of(sc):
            k = (c['e'], c['mt'], c['doc'])
            per.setdefault(sc['optset'], {}).setdefault(k, dict(e=c['e'], mt=c['mt'], doc=c['doc'], gate=0, sh=''))
    return [dict(kind='base', id='%s%d' % (sid, o), optset=o, gomaxprocs=4, calls=[per[o][k] for k in sorted(per[o])])
            for o in sorted(per)]


_run_n = [0]
_run_lock = threading.Lock()


def run_driver(ctx, exe, pool, scens, tag, deadline_ms=30000, procs_env=None, timeout=1500, _depth=0):
    """one process of the -race driver; returns its trace lines (dicts)"""
    with _run_lock:
        _run_n[0] += 1
        n = _run_n[0]
    d = ctx.path('run', '%s-%d' % (tag, n), 'x')
    d = os.path.dirname(d)
    tmp = os.path.join(d, 'tmp')
    os.makedirs(tmp, exist_ok=True)
    ids = set(c['doc'] for sc in scens for c in calls_of(sc))
    fin, fout = os.path.join(d, 'scen.ndjson'), os.path.join(d, 'trace.ndjson')
    vlib.write_ndjson(fin, [pool.docs_line(ids)] + scens)
    env = dict(os.environ)
    env.update(GORACE='log_path=%s/race halt_on_error=0 exitcode=0 history_size=2' % d, C13_RACELOG='%s/race' % d,
               C13_DEADLINE_MS=str(deadline_ms), TMPDIR=tmp)
    if procs_env:
        env['GOMAXPROCS'] = str(procs_env)
    try:
        r = vlib.run([exe, fin, fout], timeout=timeout, env=env, check=False)
    except Exception as e:     # subprocess.TimeoutExpired
        raise vlib.Infra('c13 driver did not finish (%s): %s' % (tag, e))
    lines = vlib.read_ndjson(fout) if os.path.exists(fout) else []
    ends = sum(1 for l in lines if l['ev'] == 'end')
    if r.returncode == 0 and ends == len(scens):
        return lines
    # the process died.  A Go runtime "fatal error" (concurrent map access) or a panic in a goroutine the driver
    # cannot guard (Reader/Writer workers) inside the code under test is an observation about the scenario that
    # was running (trace lines are written unbuffered); anything else is an infrastructure problem.
    full = r.stderr or ''
    begun = [l['sc'] for l in lines if l['ev'] == 'begin']
    # "fatal error: concurrent map writes" is the FIRST line of a goroutine dump that can be megabytes long
    m = re.search(r'^(fatal error: .*|panic: .*)$', full, re.M)
    head = full[m.start():m.start() + 5000] if m else ''
    cut_frame = re.search(r'github\.com/tdewolff/[^\s(]*', full)
    died_in_cut = bool(m) and bool(cut_frame)
    err = head + ('\n...\nfirst frame of the code under test: ' + cut_frame.group(0) if cut_frame and cut_frame.group(0) not in head else '')
    # the scenario that was running - or, when the process died between two scenarios (a goroutine left over from
    # the last one), the last one that ran
    if not died_in_cut or not begun or len(begun) not in (ends, ends + 1) or _depth > 40:
        raise vlib.Infra('c13 driver failed (%d) after %d of %d scenarios: %s ... %s' % (
            r.returncode, ends, len(scens), full[:1500], full[-1500:]))
    sid = begun[-1]
    lines.append(dict(ev='crash', sc=sid, g=0, k=0, sh='', key='', h='', err='', races=0, o1='', o2='', note=err))
    rest = [sc for sc in scens if sc['id'] not in set(begun)]
    if rest:
        lines += run_driver(ctx, exe, pool, rest, tag, deadline_ms, procs_env, timeout, _depth + 1)
    return lines


def _h(x):
    return hashlib.sha1(x.encode('utf-8', 'surrogatepass')).hexdigest()[:16] if x else ''


def for_tlc(l):
    """what TLC needs of a line: free text (outputs, struct renderings, error texts, race reports) is only ever
    compared for equality, so it travels as a digest - TLA+ strings are atomic anyway"""
    return dict(ev=l['ev'], sc=l['sc'], g=l['g'], k=l['k'], sh=l['sh'], key=l['key'], h=l['h'], err=_h(l['err']),
                races=l['races'], o1=_h(l['o1']), o2=_h(l['o2']), note='', tree=l.get('tree') or [])


_tlc_lock = threading.Lock()
_tlc_ids = [0]


def tlc_trace_one(ctx, lines, tag, timeout=1500):
    """one TLC run of ConcTrace over `lines` (own uniquely named trace file); returns (accepted, rejects)"""
    with _tlc_lock:
        _tlc_ids[0] += 1
        n = _tlc_ids[0]
    p = ctx.path('tv13', '%s-%d.ndjson' % (tag, n))
    vlib.write_ndjson(p, lines)
    r = run_tlc(ctx, 'ConcTrace', 'ConcTrace.cfg', env={'TRACE': p}, heap='2g', timeout=timeout)
    badl = [e for e in r['errors'] if 'REJECT' not in e]
    if r['invariant_violations'] or badl or not r['completed']:
        raise vlib.Infra('trace validation run failed (ConcTrace %s):\n%s' % (tag, r['out'][-3000:]))
    if r['distinct'] != len(lines) + 1:
        raise vlib.Infra('trace validation consumed %d of %d lines (ConcTrace %s)' % (r['distinct'] - 1, len(lines), tag))
    rej = sorted(set((l - 1, why) for l, why in r['rejects']))
    return len(lines) - len(set(i for i, _ in rej)), rej


def run_tlc(ctx, module, cfg, workers=1, heap='3g', timeout=1800, env=None, simulate=None, seed=None, depth=None):
    """vlib.tlc with a metadir name that is unique across threads (vlib's comes from an unsynchronised counter)"""
    import shutil
    import subprocess
    import time
    import uuid
    d = vlib._speccopy(ctx)
    meta = os.path.join(ctx.scratch, 'meta', '%s-%s' % (module, uuid.uuid4().hex))
    os.makedirs(meta, exist_ok=True)
    args = ['java', '-Xmx' + heap, '-Xss64m', '-XX:+UseParallelGC', '-XX:ParallelGCThreads=%d' % max(2, min(4, workers)),
            '-cp', vlib.JARS, 'tlc2.TLC', '-workers', str(workers), '-metadir', meta, '-config', cfg]
    if simulate:
        args += ['-simulate', simulate]
    if depth:
        args += ['-depth', str(depth)]
    if seed is not None:
        args += ['-seed', str(seed)]
    args += [module + '.tla']
    e = dict(os.environ)
    e.pop('JAVA_TOOL_OPTIONS', None)
    if env:
        e.update(env)
    t0 = time.time()
    try:
        r = subprocess.run(args, cwd=d, env=e, capture_output=True, text=True, timeout=timeout)
    except subprocess.TimeoutExpired:
        raise vlib.Infra('TLC timeout (%ss) on %s/%s' % (timeout, module, cfg))
    finally:
        shutil.rmtree(meta, ignore_errors=True)
    out = r.stdout + r.stderr
    res = dict(out=out, rc=r.returncode, wall=time.time() - t0, generated=0, distinct=0, depth=0, rejects=[],
               invariant_violations=[], errors=[])
    m = re.findall(r'(\d[\d,]*) states generated, (\d[\d,]*) distinct states found', out)
    if m:
        res['generated'] = int(m[-1][0].replace(',', ''))
        res['distinct'] = int(m[-1][1].replace(',', ''))
    m = re.search(r'depth of the complete state graph search is (\d+)', out)
    if m:
        res['depth'] = int(m.group(1))
    for m in re.finditer(r'<<\s*"REJECT",\s*(\d+),\s*"([^"]*)"\s*>>', out):
        res['rejects'].append((int(m.group(1)), m.group(2)))
    res['invariant_violations'] = re.findall(r'Invariant (\S+) is violated', out)
    if 'Deadlock reached' in out:
        res['invariant_violations'].append('deadlock')
    res['errors'] = [l for l in out.splitlines() if l.startswith('Error:')]
    res['completed'] = ('Model checking completed' in out) or ('Finished in' in out and simulate is not None)
    return res


def tv(ctx, base_lines, groups):
    """groups: list of lists of lines; each group is validated by one TLC run together with the reference lines of
    the keys it mentions (group 0: with ALL reference lines, so that every repetition of a reference call - same
    process, second process - is compared exactly once).
    returns (accepted_lines, {group_index: [(line_in_group, why)]}; group index -1 = base_lines)"""
    def one(gi):
        if gi == 0:
            bidx = list(range(len(base_lines)))
        else:
            keys = set(l['key'] for l in groups[gi])
            bidx = [i for i, b in enumerate(base_lines) if b['ev'] != 'base' or b['key'] in keys]
        lines = [for_tlc(base_lines[i]) for i in bidx] + [for_tlc(l) for l in groups[gi]]
        acc, rej = tlc_trace_one(ctx, lines, 'g%d' % gi)
        return gi, bidx, rej
    rejects, accepted = {}, 0
    with ThreadPoolExecutor(max_workers=max(1, min(vlib.JOBS, len(groups)))) as ex:
        for gi, bidx, rej in ex.map(one, range(len(groups))):
            nb = len(bidx)
            brej = [(bidx[i], w) for i, w in rej if i < nb]
            grej = [(i - nb, w) for i, w in rej if i >= nb]
            if gi == 0 and brej:
                rejects.setdefault(-1, []).extend(brej)
            if grej:
                rejects[gi] = grej
            accepted += len(groups[gi]) - len(set(i for i, _ in grej))
            if gi == 0:
                accepted += len(base_lines) - len(set(i for i, _ in brej))
    return accepted, rejects


def split_scenarios(lines):
    """list of (scenario id, [lines])"""
    out, cur = [], None
    for l in lines:
        if l['ev'] == 'begin':
            cur = (l['sc'], [])
            out.append(cur)
        cur[1].append(l)
    return out


def race_in_code_under_test(note):
    return 'github.com/tdewolff/' in (note or '')


def describe(sc, lines, whys):
    parts = ['scenario %s (%s, optset %d, GOMAXPROCS %s, %d goroutines): ' % (
        sc.get('id'), sc['kind'], sc.get('optset', 0), sc.get('gomaxprocs', '-'), len(sc.get('progs') or []) or 1)]
    for idx, why in whys[:4]:
        l = lines[idx]
        parts.append('[%s] %s' % (why, LONG.get(why, why)))
        if why.startswith('Deterministic'):
            parts.append('call %s by goroutine %s returned hash %s err=%r out=%s' % (l['key'], l['g'], l['h'], l['err'], l['note'][:200]))
        elif why.startswith('SharedReadOnly'):
            a, b = l['o1'], l['o2']
            i = next((j for j in range(min(len(a), len(b))) if a[j] != b[j]), min(len(a), len(b)))
            parts.append('before ...%s  after ...%s' % (a[max(0, i - 60):i + 60], b[max(0, i - 60):i + 60]))
        elif why in ('NoDataRace', 'Crash'):
            parts.append(l['note'][:1500])
        elif why == 'NoBlocking':
            parts.append('goroutine %s call %s: %s' % (l['g'], l['key'], l['note']))
    return ' '.join(parts)


def identity(sc, pool):
    """what identifies a witness: the scenario with documents by content"""
    def cc(c):
        return [c['e'], c['mt'], hashlib.sha1(pool.docs[c['doc']]).hexdigest()[:12], c.get('gate', 0)] + (['hold', c.get('at', 1)] if c.get('hold') else [])
    d = dict(kind=sc['kind'], optset=sc.get('optset', 0), gomaxprocs=sc.get('gomaxprocs', 0))
    if sc.get('calls'):
        d['calls'] = [cc(c) for c in sc['calls']]
    if sc.get('progs'):
        d['progs'] = [[cc(c) for c in p] for p in sc['progs']]
    if sc.get('parked'):
        d['parked'] = [cc(c) for c in sc['parked']]
    if sc.get('script'):
        d['script'] = [[o['op'], o['g'], o['k']] for o in sc['script']]
    if sc.get('args'):
        d['args'] = sc['args']
    if 'conc' in sc:
        d['conc'] = sc['conc']
    if sc.get('regression'):
        d['regression'] = sc['regression']     # former witness of a fixed defect: its key is not a known-finding key
    return d


def rerun_alone(ctx, exe, pool, sc, attempts, deadline_ms=60000):
    """re-run one scenario in a fresh process (with its own reference calls) and re-validate.
    returns (lines, rejects) of the first attempt that is rejected again, else (None, [])"""
    for a in range(attempts):
        one = dict(sc, id='r%d' % a)
        if sc['kind'] == 'cold':
            scs = [one] + base_scenarios([one], 'rb')      # cold start: nothing runs before it in the fresh process
        else:
            scs = (base_scenarios([one], 'rb') if sc['kind'] not in ('cmdin', 'htmldep') else []) + [one]
        lines = run_driver(ctx, exe, pool, scs, 'rerun', deadline_ms=deadline_ms)
        acc, rej = tlc_trace_one(ctx, [for_tlc(l) for l in lines], 'rerun', timeout=900)
        drift = [(i, w) for i, w in rej if w.startswith('DRIFT')]
        if drift:
            raise vlib.Infra('design model / driver drift on re-run of %s: %s %s' % (sc.get('id'), drift[:3], lines[drift[0][0]]))
        rej = check_race_attribution(lines, rej)
        if rej:
            return lines, rej
    return None, []


def check_race_attribution(lines, rej):
    for i, w in rej:
        if w == 'NoDataRace' and not race_in_code_under_test(lines[i]['note']):
            raise vlib.Infra('race report without a frame of the code under test (driver bug?):\n' + lines[i]['note'][:3000])
    return rej


def replay_obj(sc, pool):
    ids = set(c['doc'] for c in calls_of(sc))
    return dict(scenario=sc, docs={i: base64.b64encode(pool.docs[i]).decode() for i in sorted(ids)})


# ------------------------------------------------------------------------------------------
# model checking of the design
# ------------------------------------------------------------------------------------------
NEG = [('ConcNeg_reg_noblocking', 'NoBlocking'), ('ConcNeg_reg_deadlock', 'deadlock'),
       ('ConcNeg_nocopy_sro', 'SharedReadOnly'), ('ConcNeg_nocopy_det', 'Deterministic'),
       ('ConcNeg_nocopy_svgorder', 'Deterministic'), ('ConcNeg_loosecap_sro', 'SharedReadOnly'),
       ('ConcNeg_loosecap_det', 'Deterministic'), ('ConcNeg_cmdin_sro', 'SharedReadOnly'),
       ('ConcNeg_cmdin_det', 'Deterministic'), ('ConcNeg_htmldep_sro', 'SharedReadOnly'),
       ('ConcNeg_lazy_sro', 'SharedReadOnly'), ('ConcNeg_lazy_det', 'Deterministic'),
       ('ConcNeg_pool_sro', 'SharedReadOnly'), ('ConcNeg_pool_det', 'Deterministic'), ('ConcNeg_pool_conc', 'Deterministic')]


def model_check(ctx):
    quick = ctx.quick()
    pos = ['Conc_mc2x2q', 'Conc_mc3x1q', 'Conc_mc2x1aq'] if quick else \
          ['Conc_mc2x2', 'Conc_mc3x1', 'Conc_mc2x1a', 'Conc_mc2x3', 'Conc_mc3x2', 'Conc_mc4x1']
    info = {}
    lock = threading.Lock()

    def run_pos(cfg):
        r = run_tlc(ctx, 'Conc', cfg + '.cfg', workers=4 if not quick else 3, heap='4g', timeout=1500)
        if r['invariant_violations'] or r['errors'] or not r['completed']:
            raise vlib.Infra('design-level model checking of Conc/%s did not pass:\n%s' % (cfg, r['out'][-3000:]))
        with lock:
            ctx.add_mc(r)
            info[cfg] = dict(states=r['distinct'], transitions=r['generated'], depth=r['depth'], wall_s=round(r['wall'], 1))

    def run_neg(item):
        cfg, want = item
        r = run_tlc(ctx, 'ConcNeg', cfg + '.cfg', workers=1, heap='1g', timeout=600)
        if want not in r['invariant_violations']:
            raise vlib.Infra('negative control %s: TLC did not find the %s violation (the invariant lost its teeth):\n%s'
                             % (cfg, want, r['out'][-2000:]))
        with lock:
            info[cfg] = 'violation of %s found as required (%d states)' % (want, r['distinct'])

    def run_fixed(cfg):
        r = run_tlc(ctx, 'ConcNeg', cfg + '.cfg', workers=1, heap='1g', timeout=600)
        if r['invariant_violations'] or r['errors'] or not r['completed']:
            raise vlib.Infra('%s should pass:\n%s' % (cfg, r['out'][-2000:]))
        with lock:
            info[cfg] = 'passes (%d states)' % r['distinct']

    # quick tier: a seeded third of the negative controls (all of them in the thorough tier)
    negs = list(NEG) if not quick else [NEG[(ctx.seed + 3 * i) % len(NEG)] for i in range(4)]
    with ThreadPoolExecutor(max_workers=max(2, vlib.JOBS // 3)) as ex:
        futs = [ex.submit(run_pos, c) for c in pos] + [ex.submit(run_neg, i) for i in negs] + \
               ([ex.submit(run_fixed, 'ConcNeg_cmdin_fixed'), ex.submit(run_fixed, 'ConcNeg_lazy_warm')] if not quick else [])
        for f in futs:
            f.result()
    return info


# ------------------------------------------------------------------------------------------
def pinned_scenarios(pool):
    out = []
    for w in vlib.known_cases(PID):
        sc = dict(w['scenario'])
        for i, b in w['docs'].items():
            pool.docs[i] = base64.b64decode(b)
        out.append(sc)
    return out


def run(ctx):
    quick = ctx.quick()
    rnd = ctx.rnd
    vlib._speccopy(ctx)
    exe = vlib.build_harness(ctx, 'c13', race=True)
    mc_info = {}
    mc_err = []

    def mc_thread():
        try:
            mc_info.update(model_check(ctx))
        except BaseException as e:      # re-raised in the main thread
            mc_err.append(e)
    th = threading.Thread(target=mc_thread)
    th.start()
    try:
        _run(ctx, exe, quick, rnd, mc_info)
    finally:
        th.join()
    _t(ctx, 'design model runs finished')
    if mc_err:
        raise mc_err[0]
    ctx.coverage['design_model_runs'] = mc_info


def _t(ctx, what):
    import time
    vlib.log('C13 [%5.1fs] %s' % (time.time() - ctx.t0, what))


def _run(ctx, exe, quick, rnd, mc_info):
    _t(ctx, 'driver built')
    pool = Pool()
    nrepo = repo_docs(ctx, pool, 20 if quick else 120)
    optsets = [0, 1, 2]

    # ---- GEN: histories of the design model
    nsim = (100, 100, 50) if quick else (2000, 2000, 800)
    with ThreadPoolExecutor(max_workers=3) as ex:
        f1 = ex.submit(histories, ctx, 'Conc_gen', nsim[0], ctx.seed)
        f2 = ex.submit(histories, ctx, 'Conc_genlazy', nsim[1], ctx.seed + 1000)
        f3 = ex.submit(histories, ctx, 'Conc_gen4', nsim[2], ctx.seed + 2000)
        hists = f1.result() + f2.result() + f3.result()
    _t(ctx, '%d histories generated by TLC' % len(hists))
    seen, scheds = set(), []
    for h in hists:
        key = json.dumps(h, sort_keys=True)
        if key in seen:
            continue
        seen.add(key)
        scheds.append(scenario_from_history(pool, rnd, h, 's%d' % len(scheds), rnd.choice(optsets), rnd.choice([1, 4, 16])))
    pairs = pair_scenarios(pool, rnd, quick, optsets, 'p')
    mmm = mmm_scenarios(pool, rnd, quick, optsets, 'm')
    pairs += mmm
    fails = fail_scenarios(pool, rnd, quick, optsets, 'f')
    pairs += fails
    calls = call_pool(pool, rnd, optsets, quick)
    seqs = []
    for o in optsets:
        order = list(calls) + list(calls)
        rnd.shuffle(order)
        seqs.append(dict(kind='seq', id='q%d' % o, optset=o, gomaxprocs=4, calls=order))
    stress = stress_scenarios(pool, rnd, calls, quick, optsets)
    ent = lambda sh: 'Match' if sh.startswith('match') else 'Bytes'
    shape_calls = [dict(e=ent(sh), mt=mt, doc=d, gate=0, sh=sh) for sh, lst in sorted(pool.by_shape.items()) for mt, d in lst]
    shape_calls += [dict(e=ent(sh), mt=mt, doc=d, gate=0, sh=sh) for (sh, gid), lst in sorted(pool.gate.items()) if gid in (1, 7)
                    for mt, d in lst]
    shape_calls += [dict(e='Bytes', mt=mt, doc=d, gate=0, sh=sh) for sh, b in sorted(HOLD_SHAPES.items()) for mt, d in pool.by_shape[b]]
    # probe documents without a catalogued shape (nested calls differ per option set): only the option structs are judged
    probes = [('text/html', b'<!--[if IE 6]><p> c </p><style>a { b : c }</style><script>var  x = 1</script><![endif]--><p> z </p>'),
              ('text/html', HTMLS[0]), ('text/html', HTMLC[1]), ('text/html', b'<iframe><p style="a:b"> f </p></iframe><math><mi> x </mi></math>'),
              ('image/svg+xml', SVG1), ('text/css', CSS[0])] + HAND_EXTRA
    shape_calls += [dict(e='Bytes', mt=mt, doc=pool.add(b), gate=0, sh='') for mt, b in probes]
    shapes = [dict(kind='shape', id='h%d' % o, optset=o, gomaxprocs=4, calls=shape_calls) for o in optsets]
    colds = cold_scenarios(pool, rnd, quick, optsets)
    everything = scheds + pairs + seqs + stress + colds
    bases = base_scenarios(everything)
    by_id = {sc['id']: sc for sc in everything + bases + shapes}

    # ---- RUN: several driver processes side by side (each with its own race log and TMPDIR)
    nproc = max(2, min(vlib.JOBS, 8))
    sched_all = scheds + pairs
    chunks = [sched_all[i::max(1, nproc - 3)] for i in range(max(1, nproc - 3))]
    jobs = [('base', bases, None), ('proc2', [dict(b, id='z' + b['id'], gomaxprocs=0) for b in bases], 3),
            ('seq', seqs + shapes, None), ('stress', stress, None)] + [('sched%d' % i, c, None) for i, c in enumerate(chunks) if c]
    for sc in colds:       # a process of its own; its reference calls are repeated AFTER it in the same process
        after = [dict(b, id='a%s-%s' % (sc['id'], b['id'])) for b in base_scenarios([sc], 'b')]
        for b in after:
            by_id[b['id']] = b
        jobs.append(('cold-' + sc['id'], [sc] + after, None))
    for sc in jobs[1][1]:
        by_id[sc['id']] = sc
    with ThreadPoolExecutor(max_workers=nproc) as ex:
        futs = [ex.submit(run_driver, ctx, exe, pool, scs, tag, 30000, pe) for tag, scs, pe in jobs]
        results = [f.result() for f in futs]
    base_lines = results[0] + results[1]
    # base lines of the cold processes stay with their scenario (they are "repeat" lines for ConcTrace)
    _t(ctx, 'driver processes finished (%s)' % ', '.join('%s:%d lines' % (j[0], len(r)) for j, r in zip(jobs, results)))
    other = [l for r in results[2:] for l in r]

    # ---- pinned witnesses: known findings and regression scenarios of fixed defects (own process: a race report
    #      there must not touch the main runs); a regression scenario that is rejected again is a VIOLATION
    pinned = pinned_scenarios(pool)
    pin_lines = run_driver(ctx, exe, pool, pinned, 'pinned', 30000) if pinned else []
    for sc in pinned:
        by_id[sc['id']] = sc
    pinned_ids = set(sc['id'] for sc in pinned)

    # ---- TV
    scen_lines = split_scenarios(other) + split_scenarios(pin_lines)
    ngroups = max(1, min(vlib.JOBS, 6 if quick else 12, len(scen_lines)))
    groups, gmap = [[] for _ in range(ngroups)], [[] for _ in range(ngroups)]
    order = sorted(range(len(scen_lines)), key=lambda i: -len(scen_lines[i][1]))
    for i in order:                      # longest first onto the currently shortest group
        gi = min(range(ngroups), key=lambda j: len(groups[j]))
        for l in scen_lines[i][1]:
            gmap[gi].append(scen_lines[i][0])
            groups[gi].append(l)
    _t(ctx, 'pinned scenarios run; validating %d groups' % ngroups)
    accepted, rejects = tv(ctx, base_lines, groups)
    _t(ctx, 'trace validation finished: %d rejected lines' % sum(len(v) for v in rejects.values()))

    # ---- triage: every rejected scenario is re-run ALONE in a fresh process and re-validated
    bad = {}      # scenario id -> [(line dict, why)]
    for gi, rej in rejects.items():
        for i, why in rej:
            if gi == -1:
                l = base_lines[i]
            else:
                l = groups[gi][i]
            bad.setdefault(l['sc'], []).append((l, why))
    # a document whose nested calls differ from the shape the model assumes: DRIFT information, never a verdict
    shape_drift = []
    for sid in list(bad):
        keep = []
        for l, w in bad[sid]:
            if w == 'DRIFT:shape':
                shape_drift.append(dict(shape=l['sh'], call=l['key'], observed_tree=l.get('tree')))
            else:
                keep.append((l, w))
        if keep:
            bad[sid] = keep
        else:
            del bad[sid]
    ctx.coverage['drift'] = shape_drift[:20]
    for dsh in shape_drift[:5]:
        vlib.log('C13 DRIFT (information): %s' % json.dumps(dsh))
    # when a reference scenario itself was rejected (e.g. the process died in a sequential call) later calls have
    # no reference: those lines cannot be judged and are not counted either way
    base_ids = set(sc['id'] for sc in bases) | set('z' + sc['id'] for sc in bases)
    if any(sid in base_ids for sid in bad):
        for sid in list(bad):
            bad[sid] = [(l, w) for l, w in bad[sid] if w != 'DRIFT:noref']
            if not bad[sid]:
                del bad[sid]
    drift = [(sid, l, w) for sid, lw in bad.items() for l, w in lw if w.startswith('DRIFT')]
    if drift:
        sid, l, w = drift[0]
        raise vlib.Infra('design model / driver drift (%d lines), e.g. %s in scenario %s: %s' % (len(drift), w, sid, json.dumps(l)[:600]))
    reproduced = 0
    unreproduced = []
    # when very many scenarios are rejected (a defect on a hot path) only a few of each kind are re-run alone
    chosen, per_cat = [], {}
    for sid in sorted(bad, key=lambda x: (x not in pinned_ids, len(bad[x]), x)):
        cat = (by_id[sid]['kind'], tuple(sorted(set(w for _, w in bad[sid]))))
        limit = 1 if 'NoBlocking' in cat[1] else 2      # blocked scenarios cost a full deadline each
        if sid in pinned_ids or (per_cat.get(cat, 0) < limit and len(chosen) < 7 + len(pinned_ids)):
            per_cat[cat] = per_cat.get(cat, 0) + 1
            chosen.append(sid)
    ctx.coverage['rejected_scenarios_retried'] = len(chosen)
    for sid in chosen:
        sc = by_id[sid]
        whys0 = sorted(set(w for _, w in bad[sid]))
        for l, w in bad[sid]:
            if w == 'NoDataRace' and not race_in_code_under_test(l['note']):
                raise vlib.Infra('race report without a frame of the code under test (driver bug?):\n' + l['note'][:3000])
        seqlike = sc['kind'] in ('base', 'seq', 'shape', 'cmdin', 'htmldep') and not sc.get('conc')
        if sid in pinned_ids:
            # pinned witnesses already ran alone in a process of their own: that run is the isolated replay
            lines2 = [l for l, _ in bad[sid]]
            rej2 = [(i, w) for i, (_, w) in enumerate(bad[sid])]
        else:
            lines2, rej2 = rerun_alone(ctx, exe, pool, sc, 1 if seqlike else 4)
        if not rej2:
            unreproduced.append((sid, whys0))
            continue
        reproduced += 1
        verdict = ctx.report(identity(sc, pool), describe(sc, lines2, rej2), replay_obj(sc, pool))
        vlib.log('C13: scenario %s rejected (%s) and reproduced alone -> %s' % (sid, ','.join(whys0), verdict))
    _t(ctx, 'triage finished')
    ctx.coverage['rejected_scenarios'] = len(bad)
    ctx.coverage['rejected_scenarios_reproduced'] = reproduced
    ctx.coverage['rejected_scenarios_not_reproduced'] = len(unreproduced)
    if unreproduced and not reproduced:
        raise vlib.Infra('rejections that did not reproduce in isolation (not a verdict): %s' % unreproduced[:5])

    # ---- evidence
    nontrivial = set()
    for sc in scheds + pairs:
        if overlap_nontrivial(sc['script']):
            nontrivial.add(json.dumps([sc['script'], [[c['sh'] for c in p] for p in sc['progs']]]))
    for sc in stress + colds:
        nontrivial.add(json.dumps([sc['kind'], len(sc['progs']), sc['gomaxprocs'], sc['id']]))
    ncalls = sum(1 for l in base_lines + other + pin_lines if l['ev'] in ('base', 'ret', 'done'))
    skipped = sum(1 for l in other if l['ev'] == 'end' and l['note'] == 'skipped')
    ctx.coverage['scenarios_skipped_after_a_blocked_call'] = skipped
    whole = len(scen_lines) - len(bad) - skipped + (len(bases) * 2)
    samples = []
    for sc in (scheds[:1] + [s for s in pairs if s.get('pair', [0, 0, ''])[2] == 'parked'][:1]):
        samples.append(dict(kind='scripted history', optset=sc['optset'], gomaxprocs=sc['gomaxprocs'],
                            programs=[[(c['sh'], c['e'], c['mt']) for c in p] for p in sc['progs']],
                            script=['%s(g%d,#%d)' % (o['op'], o['g'], o['k']) for o in sc['script']]))
    if stress:
        sc = stress[-1]
        samples.append(dict(kind='stress', goroutines=len(sc['progs']), gomaxprocs=sc['gomaxprocs'], calls_per_goroutine=len(sc['progs'][0]),
                            parked_readers=[(c['sh'], c['e'], c['mt']) for c in sc['parked']],
                            first_calls=[(c['e'], c['mt']) for c in sc['progs'][0][:4]]))
    ctx.coverage.update(dict(
        traces_validated_against_impl=whole,
        trace_lines_accepted=accepted,
        evaluations=ncalls,
        distinct_nontrivial=len(nontrivial),
        rule='histories = (a) TLC -simulate walks of spec/Conc.tla (3 goroutines x 2 calls, 4 x 1; eager and lazy gate release) '
             'replayed as gate schedules, (b) every ordered pair of %d media-type shapes run sequentially / on two goroutines / '
             'concurrently / beside a parked reader, plus Match-Minify-Match on every regexp-registered and literal type '
             '(one goroutine, two goroutines, concurrently), (b2) calls that fail AFTER output was written (truncated JSON, script errors below html, failing user minifier and '
             'command) through every entry point: good-failing-good on one goroutine, on two goroutines, and one failing goroutine '
             'beside three that pass only well-formed input, (c) cold starts: one fresh driver process per media-type shape whose first action is N goroutines making their first '
             'call of that type together (reference calls repeated afterwards in the same process), (c2) stress runs goroutines {2,8,64} x GOMAXPROCS {1,4,16} '
             'with parked readers and Match before/after, (d) one sequential pass per option set on one registry, (e) all reference '
             'calls repeated in a second process; a call is (entry point, media type, document, option set). Non-trivial = distinct '
             'scripted history in which a call returned while another goroutine was parked inside a gate or two calls were in flight '
             'together, plus each stress run. Parking points: gate minifiers (top level, below html, inside css via data URIs, '
             'below svg->css, behind Match with no read hold) and stalled m.Writer/m.Reader pipes (worker parked inside the real '
             'html/css/svg/js/json/xml minifier). Excluded from the generators (pinned as known finding instead): '
             'html.Minifier.KeepConditionalComments=true (deprecated option). AddCmd with $in/$out placeholders is an ordinary '
             'member of the registry since fix fd040d4; its former witnesses run as regression scenarios.' % len(PAIR_SHAPES),
        samples=samples,
        scripted_histories=len(scheds), pair_histories=len(pairs) - len(mmm) - len(fails), match_minify_match_histories=len(mmm),
        failing_after_output_histories=len(fails),
        stress_runs=len(stress), cold_start_processes=len(colds),
        reference_calls=sum(len(b['calls']) for b in bases), repo_test_documents=nrepo,
        shape_checks=sum(len(sc['calls']) for sc in shapes),
        calls_parked_inside_real_minifier=sum(1 for sc in scheds + pairs + stress for c in calls_of(sc) if c.get('hold')),
        calls_parked_in_gate_minifier=sum(1 for sc in scheds + pairs + stress for c in calls_of(sc) if c.get('gate') and not c.get('hold')),
        match_then_invoke_calls=sum(1 for sc in scheds + pairs + stress for c in calls_of(sc) if c['e'] == 'Match'),
        documents=len(pool.docs), pinned_known_scenarios=len(pinned),
    ))
    ctx.assumptions += [
        'the "no data races" clause is decided by the Go race detector (-race build of the driver) under the model-generated '
        'schedules and the stress runs, not by TLC; the detector keeps only a few accesses per 8-byte word, so option-struct '
        'mutation is additionally decided by rendering the structs before/after',
        'results are compared by SHA-256 of everything the entry point returned (bytes, error text; Match: pattern, params, nil-ness, output of the returned func)',
        '"blocks" verdicts use gates: the awaited event is always possible for correct code; deadline 30 s (60 s on the isolated re-run)',
        'registration concurrent with use is outside the property (ConcNeg_reg_* documents the re-entrant RLock deadlock)',
    ]


def replay(ctx, obj):
    vlib._speccopy(ctx)
    exe = vlib.build_harness(ctx, 'c13', race=True)
    det = obj.get('detail') or obj
    pool = Pool()
    for i, b in det['docs'].items():
        pool.docs[i] = base64.b64decode(b)
    sc = det['scenario']
    seqlike = sc['kind'] in ('base', 'seq', 'shape', 'cmdin', 'htmldep') and not sc.get('conc')
    lines, rej = rerun_alone(ctx, exe, pool, sc, 1 if seqlike else 4)
    if rej:
        print(describe(sc, lines, rej))
        print('VIOLATION property=C13 replay=given')
        return 1
    print('scenario %s: every line accepted by ConcTrace' % sc.get('id'))
    return 0


META = dict(
    category='model_checking',
    text='TLC model-checks the design model Conc (N<=4 goroutines, faithful RWMutex with pending writer, nested read locks, '
         'every shared access a labelled step) for NoBlocking, SharedReadOnly, Deterministic; negative-control configurations must '
         'fail. TLC-generated histories are replayed as gate schedules on one shared fully registered registry under the race '
         'detector, together with all ordered media-type pairs, stress runs and a second process; TLC validates every recorded '
         'history against Conc and the sequential reference results.',
    design_ref='DESIGN.md section 4, C13',
    note='Trusted: TLC; Go race detector for the data-race clause (probabilistic for densely packed structs; complemented by '
         'before/after renderings); SHA-256 equality of results. Schedules beyond the model bounds are sampled (stress).',
    technique='TLA+ design model + TLC-generated gate schedules + TLC trace validation of concurrent histories (-race driver)',
)
