#!/usr/bin/env python3
"""Single entry point:  check.py --property Cxx --tier quick|thorough [--replay file]
                        check.py --setup
See DESIGN.md; per-property logic lives in tools/props/cXX.py (function run(ctx))."""
import argparse
import importlib
import json
import os
import random
import sys
import traceback

sys.path.insert(0, os.path.dirname(os.path.abspath(__file__)))
import vlib  # noqa: E402


def setup():
    """Offline build of everything the checks need that can be prebuilt (go build cache)."""
    import subprocess
    import glob
    ok = True
    for d in sorted(glob.glob(os.path.join(vlib.HARNESS, 'cmd', '*'))):
        cmd = os.path.basename(d)
        r = subprocess.run(['go', 'build', '-tags', 'verif', '-o', os.devnull, './cmd/' + cmd],
                           cwd=vlib.HARNESS, env=vlib.goenv(), capture_output=True, text=True)
        print('build', cmd, 'ok' if r.returncode == 0 else 'FAILED\n' + r.stderr[-2000:])
        ok = ok and r.returncode == 0
    r = subprocess.run(['go', 'build', '-o', os.devnull, './cmd/minify'], cwd=vlib.REPO, env=vlib.goenv(),
                       capture_output=True, text=True)
    print('build cli', 'ok' if r.returncode == 0 else 'FAILED\n' + r.stderr[-2000:])
    ok = ok and r.returncode == 0
    for f in sorted(glob.glob(os.path.join(vlib.SPEC, '*.tla'))):
        r = subprocess.run(['java', '-cp', vlib.JARS, 'tla2sany.SANY', os.path.basename(f)], cwd=vlib.SPEC,
                           capture_output=True, text=True)
        bad = r.returncode != 0 or 'rror' in r.stdout.replace('Semantic errors:', 'Semantic errors:') and ('*** Errors' in r.stdout or 'Fatal' in r.stdout or 'Abort' in r.stdout)
        print('sany', os.path.basename(f), 'FAILED' if bad else 'ok')
        if bad:
            print(r.stdout[-1500:])
        ok = ok and not bad
    return 0 if ok else 2


def main():
    ap = argparse.ArgumentParser()
    ap.add_argument('--property')
    ap.add_argument('--tier', default=os.environ.get('VERIF_TIER', 'quick'))
    ap.add_argument('--replay')
    ap.add_argument('--setup', action='store_true')
    a = ap.parse_args()
    if a.setup:
        sys.exit(setup())
    pid = a.property
    seed = int(os.environ.get('VERIF_SEED', '1'))
    ctx = vlib.Ctx(pid, a.tier, seed)
    ctx.rnd = random.Random(seed)
    try:
        mod = importlib.import_module('props.' + pid.lower())
        if a.replay:
            rc = mod.replay(ctx, json.load(open(a.replay)))
        else:
            mod.run(ctx)
            rc = ctx.finish()
    except vlib.Infra as e:
        vlib.log('INFRASTRUCTURE ERROR (exit 2, not a verdict):', e)
        rc = 2
    except Exception:
        traceback.print_exc()
        rc = 2
    sys.exit(rc)


if __name__ == '__main__':
    main()
