"""Shared machinery of every check (see DESIGN.md section 3).

A check is: (MC) TLC on the design/generator spec  ->  (GEN) abstract inputs  ->
(RUN) Go harness built from the repository's *current working tree* with -tags verif
->  (TV) TLC validates the recorded trace against the trace spec  ->  verdict.
Exit codes: 0 held, 1 VIOLATION (reproduced on the real code, not a known finding),
2 infrastructure problem (never a verdict).
"""
import atexit
import hashlib
import json
import os
import re
import shutil
import subprocess
import sys
import tempfile
import time
from concurrent.futures import ThreadPoolExecutor

ROOT = os.path.dirname(os.path.dirname(os.path.abspath(__file__)))
REPO = os.environ.get('VERIF_REPO', '/repo')
SPEC = os.path.join(ROOT, 'spec')
HARNESS = os.path.join(ROOT, 'harness')
JARS = '/opt/veriftools/tla/tla2tools.jar:/opt/veriftools/tla/CommunityModules-deps.jar'
NCPU = os.cpu_count() or 4
# cap on parallel TLC/JVM processes of one check (lower it while several checks run side by side)
JOBS = int(os.environ.get('VERIF_JOBS', '0')) or min(16, NCPU)

GOENV = dict(GOFLAGS='-mod=mod', GOPROXY='off', GOSUMDB='off', GOTOOLCHAIN='local')


class Infra(Exception):
    """Infrastructure failure: exit 2, never a verdict."""


def log(*a):
    print(*a, file=sys.stderr, flush=True)


class Ctx:
    def __init__(self, pid, tier, seed):
        self.pid = pid
        self.tier = tier
        self.seed = seed
        self.t0 = time.time()
        self.scratch = tempfile.mkdtemp(prefix='verif-%s-' % pid)
        atexit.register(self.cleanup)
        self.violations = []      # list of dict(key=, desc=, replay=)
        self.known_hits = []      # list of (key, desc)
        self.coverage = {}
        self.assumptions = []
        self.level = 'model_checking'
        self.mc = dict(states=0, transitions=0)
        self._known = load_known(pid)

    def cleanup(self):
        if os.environ.get('VERIF_KEEP'):
            log('scratch kept at', self.scratch)
            return
        shutil.rmtree(self.scratch, ignore_errors=True)

    def path(self, *p):
        d = os.path.join(self.scratch, *p)
        os.makedirs(os.path.dirname(d), exist_ok=True)
        return d

    def quick(self):
        return self.tier == 'quick'

    # ---- verdict bookkeeping -------------------------------------------------
    def add_mc(self, r):
        """accumulate TLC model-checking statistics into the evidence"""
        self.mc['states'] += r['distinct']
        self.mc['transitions'] += r['generated']

    def report(self, case, desc, replay_obj=None):
        """A rejection that was reproduced in isolation on the real code."""
        key = case_key(case)
        if key in self._known:
            if not any(k == key for k, _ in self.known_hits):
                self.known_hits.append((key, self._known[key]))
            return 'known'
        if any(v['key'] == key for v in self.violations):
            return 'dup'
        if len(self.violations) >= 25:          # enough witnesses: count the rest, write no more replay files
            self.more_violations = getattr(self, 'more_violations', 0) + 1
            return 'violation'
        rp = os.path.join(ROOT, 'replays')
        os.makedirs(rp, exist_ok=True)
        path = os.path.join(rp, '%s-%s.json' % (self.pid, key[:12]))
        with open(path, 'w') as f:
            json.dump(dict(property=self.pid, key=key, case=case, why=desc,
                           detail=replay_obj), f, indent=1, default=str)
        self.violations.append(dict(key=key, desc=desc, replay=path))
        return 'violation'

    def finish(self, level=None):
        if level:
            self.level = level
        cov = dict(self.coverage)
        if self.level == 'model_checking':
            cov.setdefault('states', self.mc['states'])
            cov.setdefault('transitions', self.mc['transitions'])
            cov.setdefault('traces_validated_against_impl', 0)
        cov.setdefault('samples', [])
        cov['known_findings_reproduced'] = [d for _, d in self.known_hits]
        ev = dict(property_id=self.pid, tier=self.tier, seed=self.seed, level=self.level,
                  coverage=cov, assumptions=self.assumptions,
                  wall_s=round(time.time() - self.t0, 2), violations=len(self.violations))
        os.makedirs(os.path.join(ROOT, 'evidence'), exist_ok=True)
        with open(os.path.join(ROOT, 'evidence', self.pid + '.json'), 'w') as f:
            json.dump(ev, f, indent=1, default=str)
        for key, desc in self.known_hits:
            print('KNOWN-FINDING: property=%s %s' % (self.pid, desc))
        for v in self.violations:
            print('VIOLATION property=%s replay=%s' % (self.pid, v['replay']))
            log('  why:', v['desc'])
        if getattr(self, 'more_violations', 0):
            log('  (+%d further violations not written out)' % self.more_violations)
        sys.stdout.flush()
        return 1 if self.violations else 0


# ---- known findings ------------------------------------------------------------
def case_key(case):
    """Identity of a witness: sha1 of the canonical JSON of its identifying fields."""
    return hashlib.sha1(json.dumps(case, sort_keys=True, separators=(',', ':')).encode()).hexdigest()


def load_known(pid):
    out = {}
    for p in (os.path.join(ROOT, 'known_findings.txt'), os.path.join(ROOT, 'known', pid + '.txt')):
        if not os.path.exists(p):
            continue
        for line in open(p):
            line = line.strip()
            m = re.match(r'known: property=(\S+) key=(\S+) (.*)$', line)
            if m and m.group(1) == pid:
                out[m.group(2)] = m.group(3)
    return out


def known_cases(pid):
    """Pinned witnesses (exact inputs) of known findings, replayed on every run."""
    p = os.path.join(ROOT, 'known', pid + '.ndjson')
    if not os.path.exists(p):
        return []
    return [json.loads(l) for l in open(p) if l.strip()]


# ---- building ------------------------------------------------------------------
def goenv():
    e = dict(os.environ)
    e.update(GOENV)
    return e


def _modfile(ctx):
    """go.mod for the harness; with VERIF_REPO set, a scratch copy pointing there."""
    if REPO == '/repo':
        return []
    mf = ctx.path('gomod', 'go.mod')
    if not os.path.exists(mf):
        s = open(os.path.join(HARNESS, 'go.mod')).read().replace('=> /repo', '=> ' + REPO)
        open(mf, 'w').write(s)
        shutil.copy(os.path.join(HARNESS, 'go.sum'), ctx.path('gomod', 'go.sum'))
    return ['-modfile=' + mf]


def build_harness(ctx, cmd, race=False, tags='verif'):
    out = ctx.path('bin', cmd + ('-race' if race else ''))
    args = ['go', 'build'] + _modfile(ctx) + ['-tags', tags] + (['-race'] if race else []) + \
           ['-o', out, './cmd/' + cmd]
    r = subprocess.run(args, cwd=HARNESS, env=goenv(), capture_output=True, text=True)
    if r.returncode != 0:
        raise Infra('harness build failed (%s):\n%s' % (cmd, r.stderr[-3000:]))
    return out


def build_cli(ctx, race=False):
    out = ctx.path('bin', 'minify')
    args = ['go', 'build'] + (['-race'] if race else []) + ['-o', out, './cmd/minify']
    r = subprocess.run(args, cwd=REPO, env=goenv(), capture_output=True, text=True)
    if r.returncode != 0:
        raise Infra('cli build failed:\n%s' % r.stderr[-3000:])
    return out


def run(args, timeout=None, env=None, cwd=None, check=True, stdin=None):
    r = subprocess.run(args, capture_output=True, text=True, timeout=timeout, env=env, cwd=cwd,
                       input=stdin)
    if check and r.returncode != 0:
        raise Infra('command failed (%d): %s\n%s' % (r.returncode, ' '.join(map(str, args))[:300],
                                                      (r.stderr or r.stdout)[-3000:]))
    return r


# ---- TLC -------------------------------------------------------------------------
def _speccopy(ctx):
    d = os.path.join(ctx.scratch, 'spec')
    if not os.path.isdir(d):
        shutil.copytree(SPEC, d)
    return d


_tlc_n = [0]
_tlc_lock = __import__('threading').Lock()


def tlc(ctx, module, cfg, workers=1, heap='3g', timeout=1800, env=None, extra=(), deque=False,
        simulate=None, dump=None, seed=None, depth=None):
    """Run TLC on spec/<module>.tla with spec/<cfg>; returns parsed statistics and output."""
    d = _speccopy(ctx)
    with _tlc_lock:
        _tlc_n[0] += 1
        k = _tlc_n[0]
    meta = os.path.join(ctx.scratch, 'meta', '%s-%d-%d' % (module, os.getpid(), k))
    os.makedirs(meta, exist_ok=True)
    jopts = ['-Xmx' + heap, '-Xss64m', '-XX:+UseParallelGC', '-XX:ParallelGCThreads=%d' % max(2, min(4, workers))]
    if deque:
        jopts.append('-Dtlc2.tool.queue.IStateQueue=StateDeque')
    args = ['java'] + jopts + ['-cp', JARS, 'tlc2.TLC', '-workers', str(workers), '-metadir', meta,
                               '-config', cfg]
    if simulate:
        args += ['-simulate', simulate]
    if depth:
        args += ['-depth', str(depth)]
    if seed is not None:
        args += ['-seed', str(seed)]
    if dump:
        args += ['-dump', dump]
    args += list(extra) + [module + '.tla']
    e = dict(os.environ)
    e.pop('JAVA_TOOL_OPTIONS', None)
    if env:
        e.update(env)
    t0 = time.time()
    try:
        r = subprocess.run(args, cwd=d, env=e, capture_output=True, text=True, timeout=timeout)
    except subprocess.TimeoutExpired:
        raise Infra('TLC timeout (%ss) on %s/%s' % (timeout, module, cfg))
    finally:
        shutil.rmtree(meta, ignore_errors=True)
    out = r.stdout + r.stderr
    res = dict(out=out, rc=r.returncode, wall=time.time() - t0, generated=0, distinct=0, depth=0,
               rejects=[], invariant_violations=[], errors=[], postcondition_failed=False)
    m = re.findall(r'(\d[\d,]*) states generated, (\d[\d,]*) distinct states found', out)
    if m:
        res['generated'] = int(m[-1][0].replace(',', ''))
        res['distinct'] = int(m[-1][1].replace(',', ''))
    m = re.search(r'depth of the complete state graph search is (\d+)', out)
    if m:
        res['depth'] = int(m.group(1))
    # TLC pretty-prints wide tuples over several lines: match across whitespace/newlines
    for m in re.finditer(r'<<\s*"REJECT",\s*(\d+),\s*"([^"]*)"\s*(?:,[^>]*)?>>', out, re.S):
        res['rejects'].append((int(m.group(1)), m.group(2)))
    res['invariant_violations'] = re.findall(r'Invariant (\S+) is violated', out)
    res['invariant_violations'] += re.findall(r'Action property (\S+) is violated', out)
    if re.search(r'[Tt]emporal properties were violated', out):
        res['invariant_violations'].append('temporal')
    if 'Deadlock reached' in out:
        res['invariant_violations'].append('deadlock')
    res['postcondition_failed'] = bool(re.search(r'(?i)post-?condition.*(violated|false)', out))
    res['errors'] = [l for l in out.splitlines() if l.startswith('Error:')]
    res['completed'] = ('Model checking completed' in out) or ('Finished in' in out and simulate is not None)
    return res


def tlc_mc(ctx, module, cfg, workers=None, **kw):
    """Exhaustive model checking of a design spec: must complete with no error."""
    r = tlc(ctx, module, cfg, workers=min(workers or 8, JOBS), **kw)
    if r['invariant_violations'] or r['errors'] or not r['completed']:
        raise Infra('design-level model checking of %s/%s did not pass:\n%s' % (module, cfg, r['out'][-3000:]))
    ctx.add_mc(r)
    return r


def tlc_trace(ctx, module, cfg, lines, shards=None, timeout=1800, heap='2g', extra_env=None, deque=False,
              linear=True, min_per_shard=200):
    """Validate recorded lines (list of JSON strings or dicts) against a trace spec.

    Returns (accepted_count, rejects) where rejects = list of (global_index, why).
    Lines are dealt round-robin to `shards` TLC processes; each TLC run must consume its
    whole shard (POSTCONDITION in the cfg), otherwise this is an infrastructure error."""
    n = len(lines)
    if n == 0:
        return 0, []
    shards = max(1, min(shards or JOBS, JOBS, n // min_per_shard + 1))
    files, index = [], []
    for s in range(shards):
        idx = list(range(s, n, shards))
        p = ctx.path('tv', '%s-%d-%d.ndjson' % (module, _tlc_n[0], s))
        with open(p, 'w') as f:
            for i in idx:
                x = lines[i]
                f.write(x if isinstance(x, str) else json.dumps(x, separators=(',', ':')))
                f.write('\n')
        files.append(p)
        index.append(idx)
    _tlc_n[0] += 1

    def one(s):
        env = {'TRACE': files[s]}
        if extra_env:
            env.update(extra_env)
        return tlc(ctx, module, cfg, workers=1, heap=heap, timeout=timeout, env=env, deque=deque)

    with ThreadPoolExecutor(max_workers=shards) as ex:
        results = list(ex.map(one, range(shards)))
    rejects = []
    for s, r in enumerate(results):
        bad = [e for e in r['errors'] if 'REJECT' not in e]
        if r['invariant_violations'] or bad or not r['completed']:
            raise Infra('trace validation run failed (%s/%s shard %d):\n%s' % (module, cfg, s, r['out'][-3000:]))
        if linear and r['distinct'] != len(index[s]) + 1:
            # linear traces: one state per line + initial state
            if os.environ.get('VERIF_DEBUG'):
                log(r['out'][-2000:])
            raise Infra('trace validation consumed %d of %d lines (%s shard %d)' % (r['distinct'] - 1, len(index[s]), module, s))
        for (l, why) in r['rejects']:
            rejects.append((index[s][l - 1], why))
    rejects = sorted(set(rejects))
    accepted = n - len(set(i for i, _ in rejects))
    return accepted, rejects


def parse_dump(path, var):
    """Values of one variable from a TLC -dump file, as python lists (for sequences of ints)."""
    out = []
    pat = re.compile(r'^/\\ %s = (.*)$' % re.escape(var))
    for line in open(path):
        m = pat.match(line.rstrip('\n'))
        if m:
            out.append(m.group(1))
    return out


def tla_seq_to_list(s):
    s = s.strip()
    if s == '<<>>':
        return []
    assert s.startswith('<<') and s.endswith('>>'), s
    return [int(x) for x in s[2:-2].split(',')]


def sample(lst, k, rnd):
    if len(lst) <= k:
        return list(lst)
    return rnd.sample(lst, k)


def test_inputs(ctx, subdir):
    """Rows of the repository's own table-driven tests in /repo/<subdir>/*_test.go:
    list of dict(file=, func=, strings=[...]) (first string is usually the input)."""
    exe = build_harness(ctx, 'extract', tags='verif')
    r = run([exe, os.path.join(REPO, subdir)], timeout=120)
    return [json.loads(l) for l in r.stdout.splitlines() if l.strip()]


def write_ndjson(path, objs):
    with open(path, 'w') as f:
        for o in objs:
            f.write(o if isinstance(o, str) else json.dumps(o, separators=(',', ':')))
            f.write('\n')


def read_ndjson(path):
    return [json.loads(l) for l in open(path) if l.strip()]
