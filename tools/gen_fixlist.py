#!/usr/bin/env python3
"""Rewrites the list of fix: commits in DESIGN.md section 10.21 from /repo's git log."""
import subprocess
p = '/verif/DESIGN.md'
s = open(p).read()
a = s.index('<!-- FIXLIST BEGIN')
a = s.index('\n', a) + 1
b = s.index('<!-- FIXLIST END -->')
log = subprocess.run(['git', '-C', '/repo', 'log', '--format=%h %s', '--reverse'], capture_output=True, text=True).stdout.splitlines()
rows = [l for l in log if ' fix: ' in l]
s = s[:a] + '\n'.join('* `%s` %s' % (l.split(' ', 1)[0], l.split(' fix: ', 1)[1]) for l in rows) + '\n' + s[b:]
open(p, 'w').write(s)
print(len(rows), 'fix commits listed')
