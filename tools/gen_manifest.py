#!/usr/bin/env python3
"""Regenerates MANIFEST.json from the META dict of each tools/props/cXX.py."""
import importlib
import json
import os
import sys

here = os.path.dirname(os.path.abspath(__file__))
sys.path.insert(0, here)
ROOT = os.path.dirname(here)
props = [json.loads(l) for l in open(os.path.join(ROOT, 'properties.jsonl'))]
NA = {}
na_path = os.path.join(here, 'not_applicable.json')
if os.path.exists(na_path):
    NA = json.load(open(na_path))
checks, na = [], []
for p in props:
    pid = p['id']
    try:
        mod = importlib.import_module('props.' + pid.lower())
        meta = mod.META
    except Exception as e:  # no module yet
        na.append(dict(property_id=pid, reason=NA.get(pid, 'check not built yet in this round; see DESIGN.md section 4 for the planned specification')))
        continue
    checks.append(dict(
        property_id=pid,
        quick_cmd='python3 tools/check.py --property %s --tier quick' % pid,
        thorough_cmd='python3 tools/check.py --property %s --tier thorough' % pid,
        evidence_file='/verif/evidence/%s.json' % pid,
        replay_cmd_template='python3 tools/check.py --property %s --replay {path}' % pid,
        engine=meta.get('engine', 'tlc+go-harness'),
        level_claimed=dict(category=meta['category'], text=meta['text'], design_ref=meta.get('design_ref', 'DESIGN.md section 4')),
        level_note=meta['note'],
        technique=meta['technique'],
    ))
hooks = dict(
    guard='verif',
    enable='go build -tags verif (the harness module replaces github.com/tdewolff/minify/v2 with /repo)',
    baseline_off_cmd='cd /repo && GOFLAGS=-mod=mod go test -vet=off -count=1 ./...',
    source_commits=['f6d2d33', 'e768364'],
    add_only=True,
)
man = dict(
    version=1,
    setup_cmd='python3 tools/check.py --setup',
    hooks=hooks,
    engines=[
        dict(name='tlc-mc', path='spec/', kind_free_text='TLC exhaustive model checking of design/generator specs'),
        dict(name='tlc-trace', path='spec/*Trace.tla', kind_free_text='TLC trace validation of executions recorded from the real code'),
        dict(name='go-harness', path='harness/', kind_free_text='Go drivers built with -tags verif against /repo working tree'),
    ],
    checks=checks,
    not_applicable=na,
    notes='All checks: python3 tools/check.py --property <id> --tier quick|thorough; exit 0/1/2 as in DESIGN.md 3.3.',
)
json.dump(man, open(os.path.join(ROOT, 'MANIFEST.json'), 'w'), indent=1)
print('checks:', [c['property_id'] for c in checks], 'n/a:', len(na))

# known_findings.txt is the single committed list: assembled from known/<Cxx>.txt (one file per property so that
# builders never edit the same file); never written at check run time.
import glob
hdr = """# Known findings (never written at run time; assembled by tools/gen_manifest.py from known/<Cxx>.txt).  Format:
#   known: property=<id> key=<sha1 of witness> <what fails>   -> pinned witness in known/<id>.ndjson is replayed on every run; printed as KNOWN-FINDING
#   fixed: property=<id> <commit> <what failed>                -> suppresses nothing
"""
lines = []
for f in sorted(glob.glob(os.path.join(ROOT, 'known', 'C*.txt'))):
    for l in open(f):
        if l.strip() and not l.startswith('#'):
            lines.append(l.rstrip('\n'))
open(os.path.join(ROOT, 'known_findings.txt'), 'w').write(hdr + '\n'.join(lines) + '\n')
print('known findings:', sum(1 for l in lines if l.startswith('known:')), 'fixed:', sum(1 for l in lines if l.startswith('fixed:')))
