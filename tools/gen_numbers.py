#!/usr/bin/env python3
"""Rewrites the measured-numbers table of DESIGN.md section 10.22 from sweep logs written by the final validation
(lines `Cxx rc=0 <secs>s known=<n> viol=<n>`) and from evidence/*.json.
usage: gen_numbers.py <quick log> [<quick log> ...] --thorough <thorough log>"""
import json, os, re, sys
ROOT = os.path.dirname(os.path.dirname(os.path.abspath(__file__)))
args = sys.argv[1:]
tl = None
if '--thorough' in args:
    i = args.index('--thorough'); tl = args[i + 1]; args = args[:i]
def parse(log):
    d = {}
    for line in open(log):
        m = re.match(r'(C\d+) rc=(\d+) (\d+)s known=(\d+) viol=(\d+)', line)
        if m:
            d[m.group(1)] = (int(m.group(2)), int(m.group(3)), int(m.group(4)), int(m.group(5)))
    return d
qs = [parse(a) for a in args]
t = parse(tl) if tl else {}
rows = []
for n in range(1, 21):
    pid = 'C%02d' % n
    ev = json.load(open(os.path.join(ROOT, 'evidence', pid + '.json')))
    cov = ev['coverage']
    qw = '/'.join(str(q[pid][1]) for q in qs if pid in q)
    qrc = ','.join(str(q[pid][0]) for q in qs if pid in q)
    kn = qs[0].get(pid, (0, 0, 0, 0))[2] if qs else 0
    tw = '%d s (rc %d)' % (t[pid][1], t[pid][0]) if pid in t else '-'
    rows.append('| %s | %s | %s | %s | %s | %s | %s | %s |' % (
        pid, ev['level'], cov.get('states', cov.get('evaluations', '-')), cov.get('traces_validated_against_impl', cov.get('evaluations', '-')),
        cov.get('distinct_nontrivial', '-'), qw + ' s (rc ' + qrc + ')', tw, kn))
p = os.path.join(ROOT, 'DESIGN.md')
s = open(p).read()
a = s.index('<!-- NUMBERS BEGIN'); a = s.index('\n', a) + 1
b = s.index('<!-- NUMBERS END -->')
hdr = '| id | level | TLC states (last evidence file) | traces validated against the implementation | distinct non-trivial cases | quick wall per seed | thorough wall | known findings printed |\n|---|---|---|---|---|---|---|---|\n'
s = s[:a] + hdr + '\n'.join(rows) + '\n' + s[b:]
open(p, 'w').write(s)
print('ok')
