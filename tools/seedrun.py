#!/usr/bin/env python3
"""Runs checks against the seeded changes in /verif/seeded (each in its own scratch worktree of /repo HEAD,
removed afterwards; /repo itself is never touched).
usage: seedrun.py [--tier quick] [--props C08,C07] [seed-dir-names...]      e.g. seedrun.py C08-m1 --props C08,C07
Prints one line per (seed, property): CAUGHT (exit 1 + VIOLATION), MISSED (exit 0), or INFRA (exit 2)."""
import argparse, json, os, shutil, subprocess, sys, tempfile
ROOT = os.path.dirname(os.path.dirname(os.path.abspath(__file__)))
ap = argparse.ArgumentParser()
ap.add_argument('seeds', nargs='*')
ap.add_argument('--tier', default='quick')
ap.add_argument('--props')
ap.add_argument('--jobs', default=os.environ.get('VERIF_JOBS', '8'))
a = ap.parse_args()
seeds = a.seeds or sorted(os.listdir(os.path.join(ROOT, 'seeded')))
results = []
for sd in seeds:
    d = os.path.join(ROOT, 'seeded', sd)
    meta = json.load(open(os.path.join(d, 'meta.json')))
    if meta.get('status', '').startswith('superseded'):
        print('%-8s superseded, skipped' % sd); continue
    props = a.props.split(',') if a.props else [meta.get('breaks_property') or meta['property']]
    wt = tempfile.mkdtemp(prefix='seedrun-%s-' % sd)
    os.rmdir(wt)
    subprocess.run(['git', '-C', '/repo', 'worktree', 'add', '-q', '--detach', wt, 'HEAD'], check=True)
    try:
        r = subprocess.run(['git', '-C', wt, 'apply', os.path.join(d, 'patch.diff')], capture_output=True, text=True)
        if r.returncode != 0:   # HEAD moved next to the patched lines (fix commits): retry with reduced context
            r = subprocess.run(['git', '-C', wt, 'apply', '-C1', '--recount', os.path.join(d, 'patch.diff')], capture_output=True, text=True)
        if r.returncode != 0:
            print('%-8s patch does not apply to HEAD: %s' % (sd, r.stderr.strip()[:200])); continue
        for p in props:
            env = dict(os.environ, VERIF_REPO=wt, VERIF_JOBS=a.jobs)
            r = subprocess.run([sys.executable, os.path.join(ROOT, 'tools', 'check.py'), '--property', p, '--tier', a.tier],
                               cwd=ROOT, env=env, capture_output=True, text=True)
            nv = r.stdout.count('VIOLATION property=')
            verdict = {0: 'MISSED', 1: 'CAUGHT', 2: 'INFRA'}.get(r.returncode, 'rc=%d' % r.returncode)
            first = ''
            for line in r.stderr.splitlines():
                if line.strip().startswith('why:'):
                    first = line.strip()[:160]; break
            if r.returncode == 2:
                first = r.stderr.strip().splitlines()[-1][:200] if r.stderr.strip() else ''
            print('%-8s %-4s %-7s violations=%d %s' % (sd, p, verdict, nv, first), flush=True)
            results.append((sd, p, verdict))
    finally:
        subprocess.run(['git', '-C', '/repo', 'worktree', 'remove', '--force', wt])
        shutil.rmtree(wt, ignore_errors=True)
# the evidence files and replays written by these runs describe patched trees: restore/remove them
for p in sorted(set(p for _, p, _ in results)):
    subprocess.run(['git', '-C', ROOT, 'checkout', '--', 'evidence/%s.json' % p], capture_output=True)
