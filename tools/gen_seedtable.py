#!/usr/bin/env python3
"""Rewrites the seeded-change table of DESIGN.md section 11 from seeded/*/meta.json and a seedrun log.
usage: gen_seedtable.py <seedrun-log> [<seedrun-log> ...]   (later logs override earlier ones)"""
import json, os, re, sys
ROOT = os.path.dirname(os.path.dirname(os.path.abspath(__file__)))
# what happened before the final run (misses that led to stronger checks); kept by hand
HISTORY = {
 'C01-m9': 'round 4: missed at first (no class expression in a for-initialiser before an `in`); caught since the printctx family executes the JsPrintCtx programs in V8',
 'C09-m9': 'round 4: missed at first (no escaped $ or { next to a quote change); caught since JsStrQuote.tla (quote x pressure x escape x follower), which also found a genuine defect on the unchanged tree (fixed by 6d9028e; patch re-based)',
 'C11-m9': 'round 4: missed at first (no empty style element followed by character data); caught since the svg literal menu has collapsed-empty-style + text/CDATA hosts',
 'C19-m9': 'round 4: missed at first (the relation waived the destination of a FAILING bundle); caught since C19Trace demands the original bytes of all sources, and bundles with a failing input onto each of their own sources are driven',
 'C08-m1': 'missed once while the half-ulp relation used the prec-th digit of the output (section 10.8); caught since the relation was corrected',
 'C11-m1': 'missed at first (no typed raw element with empty/unminified body); caught since Embed.tla gained empty/template bodies and UnconsumedTypeDoesNotLeak',
 'C14-m1': 'missed at first (no inputs ending inside unterminated constructs); caught since the every-prefix family',
 'C02-m2': 'missed at first; caught since JsRenamer models the rename-flag stack (FlagAsMeant) and the with-function x nested-function x later-scope family',
 'C04-m1': 'missed at first (no comma lists with adjacency); caught since the urangeadj family',
 'C04-m2': 'missed at first (single-digit number alphabet); caught since multi-character numbers sharing a prefix with 0/1',
 'C05-m1': 'missed at first (shape too rare under uniform coordinates); caught since forcing templates for control points',
 'C05-m2': 'missed at first (fresh minifier per call); caught since SvgCallSeq.tla (call orders on one registered instance)',
 'C09-m1': 'missed at first; caught since JsPrintCtx.tla (printing contexts x disturbing siblings x payloads)',
 'C10-m1': 'missed at first; caught since the per-command-letter path document in the mutation operators',
 'C13-m2': 'runtime crash classified exit 2 at first; caught since crashes with code-under-test frames that reproduce are violations, and Match-Minify-Match is in quick',
 'C01-m1': 'missed at first; caught since the statement-nesting matrix (NestNames)',
 'C03-m1': 'missed at first (comments removed from both trees before comparing); caught since the CommentEq clause and the fixed comment-position family',
 'C01-m2': 'caught, then missed once after quick was halved; the binary x binary precedence matrix is complete in quick again',
 'C01-m3': 'missed at first; caught since the scaling family (every reordered/merged list with 13..60 observable elements)',
 'C01-m4': 'missed at first; caught since the with x expression-bodied-arrow x block-scope family',
 'C03-m4': 'missed at first; caught since the per-element probe family (every element name html.go/table.go special-cases, with text inside)',
 'C04-m4': 'missed at first; caught since upper-case E exponents are in the number alphabets',
 'C06-m3': 'missed at first (needs 7-8 tokens); caught since the window configs of XmlMachine and the XmlBuffer design model',
 'C09-m3': 'missed at first', 'C09-m4': 'missed at first',
 'C11-m3': 'missed at first; caught since data URI payloads carry a literal + with +-types',
 'C11-m4': 'missed at first; caught since real minifiers are registered as shared values and the csswarm host kind',
 'C12-m4': 'missed at first; caught since every-prefix inputs (output longer than input) go through Bytes/String',
 'C14-m3': 'missed at first; caught since Close-as-first-call sessions and the WAdd action (wrong design addinside rejected by TLC)',
 'C13-m3': 'missed at first; caught since cold-start scenarios (fresh process, first calls concurrent) and the LazyInit negative control',
 'C13-m4': 'missed at first; caught since $out-only command shapes',
 'C16-m3': 'missed at first; caught since KeepWhitespace fragments around every specially treated element',
 'C16-m4': 'missed at first; caught since the clause "Precision (nothing else)"',
 'C17-m3': 'missed at first; caught since colour probes in every hex/functional notation with alphas',
 'C17-m4': 'missed at first; caught since the URL whitespace probe',
 'C19-m4': 'owned by C20 (write fault; C19 has no I/O-fault dimension): caught by C20 quick',
 'C20-m4': 'missed at first; caught since late-failing in-place inputs are judged against the original',
 'C01-m7': 'missed at first; caught since the flowmerge family (then-branch x flow-statement branch x following statement, all truth assignments)',
 'C01-m8': 'missed at first; caught since the quotes family (literals over quote/backtick/escaped-quote alphabets, as property names and strings, compared by value)',
 'C02-m7': 'missed at first; caught since flatten_blocks (bindings that move when blocks are flattened, original names = first short names) and the MoveAfterRename guard in JsRenamer',
 'C02-m8': 'missed at first (only Version 0 was run); caught since every program gets a Version from {0,5,2015,2018,2019,2020} and the catch_unused family',
 'C03-m8': 'missed at first; caught since the entity family (all 2 231 names of the standard, in text, title and attribute values, compared by decoded text)',
 'C04-m8': 'missed at first; caught since strings with inner whitespace runs in every raw-byte context (custom properties, unknown at-rules, passed-through declarations)',
 'C05-m7': 'missed at first; caught since the compact family (shortest spellings, no optional separators) and the fixpoint family (the minifier output fed back)',
 'C09-m7': 'missed at first', 'C09-m8': 'missed at first', 'C10-m7': 'missed at first', 'C10-m8': 'missed at first',
 'C12-m7': 'ended as exit 2 at first (rejection depended on a dirty buffer from an earlier session); caught since call-history sessions and history re-runs',
 'C12-m8': 'missed at first (the relation accepted either outcome for Content-Type-without-minifier x extension-with-minifier); caught since the Content-Type decides',
 'C13-m8': 'missed at first; caught since failing-after-output shapes through every entry point and the PoolBuf negative control',
 'C14-m8': 'missed at first; caught since failing-writer doubles of six shapes (Write only; Bytes/String/Len; WriteString; ReadFrom; ResponseWriter-like; all)',
 'C17-m7': 'missed at first; caught since the text-after-element probe (RawAfterProbeOK)',
 'C17-m8': 'missed at first; caught since the element-box probe (SideProbeOK: all 16 blank combinations around every element)',
 'C19-m8': 'missed at first; caught since bundle x every way of resolving the media type, with contents where the separator matters',
}
res = {}
for log in sys.argv[1:]:
    for line in open(log):
        m = re.match(r'(\S+)\s+(C\d+)\s+(CAUGHT|MISSED|INFRA)\s+violations=(\d+)\s*(.*)', line)
        if m:
            res.setdefault(m.group(1), {})[m.group(2)] = (m.group(3), m.group(5)[:110].replace('|', '/'))
rows = []
for sd in sorted(os.listdir(os.path.join(ROOT, 'seeded'))):
    mp = os.path.join(ROOT, 'seeded', sd, 'meta.json')
    if not os.path.exists(mp):
        continue
    meta = json.load(open(mp))
    summ = re.sub(r'\s+', ' ', str(meta.get('summary', '')))[:170].replace('|', '/')
    need = re.sub(r'\s+', ' ', str(meta.get('needs_to_manifest', '')))[:150].replace('|', '/')
    if meta.get('status', '').startswith('superseded'):
        out = meta['status'][:200]
    else:
        r = res.get(sd, {})
        out = '; '.join('%s %s' % (p, v[0]) for p, v in sorted(r.items())) or 'not run in the final matrix'
    if sd in HISTORY:
        out += ' - ' + HISTORY[sd]
    rows.append('| %s | %s | %s | %s |' % (sd, summ, need, out.replace('|', '/')))
p = os.path.join(ROOT, 'DESIGN.md')
s = open(p).read()
a = s.index('<!-- SEEDTABLE BEGIN')
a = s.index('\n', a) + 1
b = s.index('<!-- SEEDTABLE END -->')
hdr = '| seed | change | manifests only when | result of the final run (quick tier) and history |\n|---|---|---|---|\n'
s = s[:a] + hdr + '\n'.join(rows) + '\n' + s[b:]
open(p, 'w').write(s)
caught = sum(1 for sd, r in res.items() for v in r.values() if v[0] == 'CAUGHT')
print(len(rows), 'seeds listed;', caught, 'CAUGHT verdicts in the logs')
