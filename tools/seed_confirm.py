#!/usr/bin/env python3
"""Confirms a seeded change myself (scratch worktree only, never /repo) and files it under /verif/seeded/<id>-<m>/.
usage: seed_confirm.py C08 m1"""
import json, os, shutil, subprocess, sys
pid, m = sys.argv[1], sys.argv[2]
wt = '/tmp/seed/' + pid
src = '/tmp/seed/out/%s/%s' % (pid, m)
env = dict(os.environ, GOFLAGS='-mod=mod', GOPROXY='off', GOSUMDB='off', GOTOOLCHAIN='local')
def sh(cmd, cwd=wt, timeout=1500):
    r = subprocess.run(cmd, shell=True, cwd=cwd, env=env, capture_output=True, text=True, timeout=timeout)
    return r.returncode, (r.stdout + r.stderr)[-1500:]
def clean():
    sh('git checkout -- . && git clean -fdq')
meta = json.load(open(src + '/meta.json'))
demo = meta['demo_cmd']
res = {}
clean()
sh('git checkout -q --detach main')
res['head'] = sh('git rev-parse --short HEAD')[1].strip()
rc, out = sh(demo); res['demo_on_clean_tree'] = 'pass' if rc == 0 else 'FAIL rc=%d' % rc; res['demo_clean_tail'] = out[-300:]
clean()
rc, out = sh('git apply %s/patch.diff' % src); res['patch_applies'] = rc == 0
rc, out = sh('go build ./... '); res['builds'] = rc == 0
rc, out = sh('go test -vet=off -count=1 ./...'); res['existing_tests_with_patch'] = 'pass' if rc == 0 else 'FAIL'; 
if rc != 0: res['tests_tail'] = out
rc, out = sh(demo); res['demo_with_patch'] = 'fails (as required)' if rc != 0 else 'PASSES (seed invalid)'; res['demo_patch_tail'] = out[-300:]
clean()
ok = res['demo_on_clean_tree'] == 'pass' and res['patch_applies'] and res['builds'] and res['existing_tests_with_patch'] == 'pass' and res['demo_with_patch'].startswith('fails')
res['confirmed'] = ok
print(pid, m, 'CONFIRMED' if ok else 'NOT CONFIRMED', json.dumps({k: v for k, v in res.items() if 'tail' not in k}))
if ok:
    dst = '/verif/seeded/%s-%s' % (pid, m)
    shutil.rmtree(dst, ignore_errors=True)
    shutil.copytree(src, dst)
    meta['confirmed_by_me'] = res
    meta['breaks_property'] = pid
    json.dump(meta, open(dst + '/meta.json', 'w'), indent=1)
else:
    print(json.dumps(res, indent=1))
